#!/bin/bash
# runs every registered quick (or thorough) check on /repo's current tree; used before committing evidence
cd "$(dirname "$0")"
tier=${1:-quick}
rc=0
for id in $(python3 -c "import json; print(' '.join(c['property_id'] for c in json.load(open('MANIFEST.json'))['checks']))"); do
  ./check $id $tier || rc=$?
done
exit $rc
