use momtrop::{vector::Vector, Edge, Graph, TropicalSamplingSettings, matrix::SquareMatrix, gamma::inverse_gamma_lr};

#[test]
fn probe_c16() {
    let mut m = SquareMatrix::new_zeros_from_num(&1.0f64, 2);
    m[(0,0)] = 1.0; m[(0,1)] = 2.0; m[(1,0)] = 2.0; m[(1,1)] = 1.0;
    let s = TropicalSamplingSettings { matrix_stability_test: Some(1e-3), print_debug_info: false, return_metadata: false };
    let r = m.decompose_for_tropical(&s);
    match r { Ok(d) => println!("C16: Ok det={:?} inv00={:?}", d.determinant, d.inverse[(0,0)]), Err(e) => println!("C16: Err {:?}", e) }
    // singular
    let mut m = SquareMatrix::new_zeros_from_num(&1.0f64, 2);
    m[(0,0)] = 1.0; m[(0,1)] = 1.0; m[(1,0)] = 1.0; m[(1,1)] = 1.0;
    let r = m.decompose_for_tropical(&s);
    match r { Ok(d) => println!("C16 singular: Ok det={:?}", d.determinant), Err(e) => println!("C16 singular: Err {:?}", e) }
}

#[test]
fn probe_c12() {
    for a in [0.05, 0.5, 1.0, 2.0, 10.0, 100.0] {
        for p in [0.0, 1e-300, 5e-324, 1.0 - 1.1e-16] {
            let r = inverse_gamma_lr(&a, &p, 50, &5.0);
            println!("C12 a={} p={:e} -> {:?}", a, p, r);
        }
    }
}

#[test]
fn probe_c06() {
    let s = TropicalSamplingSettings::default();
    let top = 1.0 - f64::EPSILON / 2.0;
    let mut found = 0;
    for (wa, wb, wc) in [(2./3., 2./3., 2./3.), (0.7, 0.9, 1.1), (1.0,1.0,1.0), (0.6, 0.61, 0.95), (0.51,0.52,0.53), (1.3,0.7,0.9)] {
        let g = Graph { edges: vec![
            Edge { vertices: (0,1), is_massive: false, weight: wa },
            Edge { vertices: (1,2), is_massive: false, weight: wb },
            Edge { vertices: (2,0), is_massive: false, weight: wc }], externals: vec![0,1,2] };
        let sampler = match g.build_sampler::<3>(vec![vec![1]; 3]) { Ok(s) => s, Err(e) => { println!("reject {e}"); continue } };
        let n = sampler.get_dimension();
        let p1 = Vector::from_array([3.0, 4.0, 5.0]);
        let p2 = Vector::from_array([6.0, 7.0, 8.0]);
        let ed = vec![(None, Vector::new_from_num(&1.0)), (None, p1), (None, &p1 + &p2)];
        for x0 in [top, 0.5] { for x2 in [top, 0.3] {
            let mut x = vec![0.37; n];
            x[0] = x0; x[2] = x2;
            let r = std::panic::catch_unwind(|| sampler.generate_sample_from_x_space_point(&x, ed.clone(), &s).map(|r| r.jacobian));
            if r.is_err() { found += 1; println!("C06 PANIC weights {:?} x0={:e} x2={:e}", (wa,wb,wc), x0, x2); }
        }}
    }
    println!("C06 panics found: {found}");
}
