use syn::visit_mut::VisitMut;
use quote::ToTokens;
struct V;
impl VisitMut for V {
    fn visit_expr_mut(&mut self, e: &mut syn::Expr) {
        syn::visit_mut::visit_expr_mut(self, e);
        if let syn::Expr::Binary(b) = e {
            if let syn::BinOp::Mul(_) = b.op {
                if matches!(*b.right, syn::Expr::Reference(_)) {
                    let l = &b.left; let r = &b.right;
                    *e = syn::parse_quote!( ::core::ops::Mul::mul(#l, #r) );
                }
            }
        }
    }
}
fn main() {
    let src = std::fs::read_to_string("/repo/src/sampling.rs").unwrap();
    let mut f = syn::parse_file(&src).unwrap();
    for item in f.items.iter_mut() {
        if let syn::Item::Fn(func) = item {
            if func.sig.ident == "box_muller" {
                V.visit_item_fn_mut(func);
                println!("{}", func.to_token_stream());
                let sp = func.sig.ident.span().start();
                println!("line {}", sp.line);
            }
        }
    }
}
