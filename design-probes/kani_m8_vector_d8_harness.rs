#[cfg(kani)]
mod verif_kani {
    use super::*;
    use std::ops::*;
    #[derive(Clone, Copy, Debug, PartialEq, PartialOrd)]
    pub struct M8(pub u8);
    fn ad(a: u8, b: u8) -> u8 { a.wrapping_mul(3).wrapping_add(b.wrapping_mul(5)).wrapping_add(1) }
    fn sb(a: u8, b: u8) -> u8 { a.wrapping_mul(9).wrapping_add(b.wrapping_mul(13)).wrapping_add(4) }
    fn ml(a: u8, b: u8) -> u8 { a.wrapping_mul(7).wrapping_add(b.wrapping_mul(7)).wrapping_add(2) }
    fn dv(a: u8, b: u8) -> u8 { a.wrapping_mul(11).wrapping_add(b.wrapping_mul(15)).wrapping_add(6) }
    macro_rules! bin { ($tr:ident, $m:ident, $f:ident) => {
        impl $tr<M8> for M8 { type Output = M8; fn $m(self, r: M8) -> M8 { M8($f(self.0, r.0)) } }
        impl<'a> $tr<&'a M8> for M8 { type Output = M8; fn $m(self, r: &'a M8) -> M8 { M8($f(self.0, r.0)) } }
        impl<'a> $tr<M8> for &'a M8 { type Output = M8; fn $m(self, r: M8) -> M8 { M8($f(self.0, r.0)) } }
        impl<'a, 'b> $tr<&'b M8> for &'a M8 { type Output = M8; fn $m(self, r: &'b M8) -> M8 { M8($f(self.0, r.0)) } }
    }}
    bin!(Add, add, ad); bin!(Sub, sub, sb); bin!(Mul, mul, ml); bin!(Div, div, dv);
    impl Neg for M8 { type Output = M8; fn neg(self) -> M8 { M8(self.0.wrapping_mul(17).wrapping_add(8)) } }
    impl<'a> Neg for &'a M8 { type Output = M8; fn neg(self) -> M8 { M8(self.0.wrapping_mul(17).wrapping_add(8)) } }
    impl<'a> AddAssign<&'a M8> for M8 { fn add_assign(&mut self, r: &'a M8) { self.0 = ad(self.0, r.0) } }
    impl<'a> SubAssign<&'a M8> for M8 { fn sub_assign(&mut self, r: &'a M8) { self.0 = sb(self.0, r.0) } }
    impl<'a> MulAssign<&'a M8> for M8 { fn mul_assign(&mut self, r: &'a M8) { self.0 = ml(self.0, r.0) } }
    impl MomTropFloat for M8 {
        fn one(&self) -> Self { M8(1) } fn ln(&self) -> Self { M8(self.0.wrapping_mul(3).wrapping_add(1)) }
        fn exp(&self) -> Self { M8(self.0.wrapping_mul(19).wrapping_add(9)) } fn cos(&self) -> Self { M8(self.0.wrapping_mul(5).wrapping_add(2)) }
        fn sin(&self) -> Self { M8(self.0.wrapping_mul(7).wrapping_add(3)) } fn powf(&self, p: &Self) -> Self { M8(self.0.wrapping_mul(21).wrapping_add(p.0.wrapping_mul(23))) }
        fn sqrt(&self) -> Self { M8(self.0.wrapping_mul(11).wrapping_add(5)) } fn from_isize(&self, v: isize) -> Self { M8(v as u8) }
        fn from_f64(&self, v: f64) -> Self { M8(v.to_bits() as u8) } fn inv(&self) -> Self { M8(self.0.wrapping_mul(25).wrapping_add(7)) }
        fn to_f64(&self) -> f64 { panic!("narrowing") } fn zero(&self) -> Self { M8(0) } fn abs(&self) -> Self { *self } fn PI(&self) -> Self { M8(31) }
    }
    fn anyv<const D: usize>() -> ([M8; D], Vector<M8, D>) { let a: [u8; D] = kani::any(); let m = a.map(M8); (m, Vector::from_array(m)) }

    #[kani::proof]
    #[kani::unwind(10)]
    fn vector_ops_d8() {
        let (a, va) = anyv::<8>(); let (b, vb) = anyv::<8>(); let s = M8(kani::any());
        let sum = &va + &vb; let dif = &va - &vb; let sc = &va * s; let scr = &va * &s;
        let mut acc = M8(0); let mut sq = M8(0);
        for i in 0..8 {
            assert!(sum[i] == a[i] + b[i]); assert!(dif[i] == a[i] - b[i]);
            assert!(sc[i] == a[i] * s); assert!(scr[i] == a[i] * s);
            acc = acc + a[i] * b[i]; sq = sq + a[i] * a[i];
        }
        assert!(va.dot(&vb) == acc); assert!(va.squared() == sq); assert!(va.dot(&va) == va.squared());
        let mut vc = va; vc += vb;
        for i in 0..8 { assert!(vc[i] == ad_pub(a[i], b[i])); }
        assert!(va.get_elements() == a); assert!(Vector::from_slice(&a).get_elements() == a);
        let z = va.new(); for i in 0..8 { assert!(z[i] == M8(0)); }
    }
    fn ad_pub(a: M8, b: M8) -> M8 { a + b }
}
