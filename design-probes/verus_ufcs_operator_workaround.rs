use vstd::prelude::*;
use vstd::std_specs::ops::*;
use std::ops::{Mul};
verus! {
pub struct R { pub x: u64 }
impl<'a> MulSpecImpl<&'a R> for R {
    open spec fn obeys_mul_spec() -> bool { true }
    open spec fn mul_req(self, rhs: &'a R) -> bool { true }
    open spec fn mul_spec(self, rhs: &'a R) -> R { R { x: 7 } }
}
impl<'a> Mul<&'a R> for R {
    type Output = R;
    fn mul(self, rhs: &'a R) -> (r: R)
    { R { x: 7 } }
}
fn test(a: R, b: R) -> (c: R)
  ensures c.x == 7
{
    let c = a.mul(&b);
    c
}
fn test2(a: R, b: R) -> (c: R)
  ensures c.x == 7
{
    let c = Mul::mul(a, &b);
    c
}
} // verus!
fn main() {}
