#[cfg(kani)]
mod verif_kani {
    use super::*;
    fn impl_stub(_a: f64, _p: f64, _n: usize, _e: f64) -> f64 { kani::any() }

    #[kani::proof]
    #[kani::stub(inverse_gamma_lr_impl, impl_stub)]
    fn wrapper_contract() {
        let a: f64 = kani::any(); let p: f64 = kani::any(); let e: f64 = kani::any();
        let r = inverse_gamma_lr(&a, &p, 50, &e);
        match r {
            Ok(v) => { assert!(!v.is_nan()); kani::cover!(v <= 0.0, "nonpositive Ok reachable"); kani::cover!(v.is_infinite(), "infinite Ok reachable"); }
            Err(_) => { kani::cover!(true, "Err reachable"); }
        }
    }
}
