use vstd::prelude::*;
use vstd::std_specs::iter::IteratorSpec;
use std::ops::{MulAssign};
verus! {
global size_of usize == 8;
#[verifier::external_body]
pub struct R { x: f64 }
pub type T = R;
impl Clone for R { #[verifier::external_body] fn clone(&self) -> (r: R) ensures r == *self { unimplemented!() } }
impl R {
    #[verifier::external_body] pub fn zero(&self) -> (r: R) { unimplemented!() }
    #[verifier::external_body] pub fn one(&self) -> (r: R) { unimplemented!() }
    #[verifier::external_body] pub fn inv(&self) -> (r: R) { unimplemented!() }
    #[verifier::external_body] pub fn powf(&self, p: &R) -> (r: R) { unimplemented!() }
    #[verifier::external_body] pub fn from_f64(&self, v: f64) -> (r: R) { unimplemented!() }
    #[verifier::external_body] pub fn ref_mul(&self, p: &R) -> (r: R) { unimplemented!() }
    #[verifier::external_body] pub fn ref_div(&self, p: &R) -> (r: R) { unimplemented!() }
}
impl<'a> vstd::std_specs::ops::MulAssignSpecImpl<&'a R> for R {
    open spec fn obeys_mul_assign_spec() -> bool { false }
    open spec fn mul_assign_req(&self, rhs: &'a R) -> bool { true }
    open spec fn mul_assign_spec(&self, rhs: &'a R) -> &R { self }
}
impl<'a> MulAssign<&'a R> for R { #[verifier::external_body] fn mul_assign(&mut self, rhs: &'a R) { unimplemented!() } }

pub assume_specification [usize::count_ones] (x: usize) -> (r: u32);
#[verifier::external_body] fn verif_cut_1(x_vec: &mut Vec<T>, scaling: &T) ensures final(x_vec).len() == old(x_vec).len() { x_vec.iter_mut().for_each(|x| *x *= scaling); }
pub struct MimicRng<'a, T> { pub cache: &'a [T], pub counter: usize, pub tokens: Vec<&'a str> }
impl<'a, T> MimicRng<'a, T> {
    #[inline]
    pub fn get_random_number(&mut self, debug_token: Option<&'a str>) -> (r: &'a T)
        requires old(self).counter < old(self).cache.len()
        ensures final(self).counter == old(self).counter + 1, final(self).cache == old(self).cache, *r == old(self).cache[old(self).counter as int]
    {
        let random_number = &self.cache[self.counter];
        self.counter += 1;
        if let Some(token) = debug_token {
            self.tokens.push(token);
        }
        random_number
    }
}
impl MimicRng<'_, T> {
    pub fn zero(&self) -> T requires self.cache.len() > 0 { self.cache[0].zero() }
    pub fn one(&self) -> T requires self.cache.len() > 0 { self.cache[0].one() }
}
#[derive(Debug, Clone, Copy, PartialEq)]
pub struct TropicalSubGraphId { pub id: usize, pub num_edges: usize }
impl TropicalSubGraphId {
    #[inline]
    pub fn get_id(&self) -> usize { self.id }
    pub fn pop_edge(&self, edge_id: usize) -> Self requires edge_id < 64 {
        Self { id: self.id ^ (1 << edge_id), num_edges: self.num_edges }
    }
    pub fn is_empty(&self) -> bool { self.id == 0 }
    fn has_edge(&self, edge_id: usize) -> bool requires edge_id < 64 { self.id & (1 << edge_id) != 0 }
    pub fn contains_edges(&self) -> (r: impl Iterator<Item = usize> + '_) requires self.num_edges <= 64
    {
        (0..self.num_edges).filter(|p0: &usize| -> (b: bool) requires *p0 < 64 { let i = *p0; self.has_edge(i) })
    }
    pub fn has_one_edge(&self) -> bool { self.id.count_ones() == 1 }
}
pub struct Entry { pub loop_number: u8, pub mass_momentum_spanning: bool, pub j_function: f64, pub generalized_dod: f64 }
pub struct Table { pub table: Vec<Entry>, pub dimension: usize, pub dod: f64, pub n_edges: usize }
impl Table {
    #[verifier::external_body]
    pub fn sample_edge(&self, uniform: &T, subgraph: &TropicalSubGraphId) -> (r: (usize, TropicalSubGraphId)) { unimplemented!() }
}
#[verifier::external_body] fn verif_panic() -> ! requires false { panic!() }
#[verifier::external_body] fn f64_half_dim(d: usize) -> f64 { d as f64 / 2.0 }

fn perm(t: &Table, rng: &mut MimicRng<T>, full: TropicalSubGraphId) -> (res: Vec<T>)
    requires old(rng).cache.len() > 0
{
    let mut kappa = rng.one();
    let mut x_vec = vec![rng.zero(); t.n_edges];
    let mut u_trop = rng.one();
    let mut v_trop = rng.one();
    let mut graph = full;

    while !graph.is_empty() 
        invariant rng.cache.len() > 0
        decreases graph.id
    {
        let (edge, graph_without_edge) = if graph.has_one_edge() {
            let edge = graph
                .contains_edges()
                .next()
                .unwrap_or_else(|| -> (o: usize) requires false { verif_panic() });
            let graph_without_edge = graph.pop_edge(edge);
            (edge, graph_without_edge)
        } else {
            t.sample_edge(rng.get_random_number(Some("sample_edge")), &graph)
        };

        x_vec[edge] = kappa.clone();

        if t.table[graph.get_id()].mass_momentum_spanning
            && !t.table[graph_without_edge.get_id()].mass_momentum_spanning
        {
            v_trop = x_vec[edge].clone();
        }

        if t.table[graph_without_edge.get_id()].loop_number
            < t.table[graph.get_id()].loop_number
        {
            u_trop *= &x_vec[edge];
        }

        graph = graph_without_edge;
        if graph.is_empty() {
            break;
        }

        let xi = rng.get_random_number(Some("sample xi"));
        kappa *= &xi.powf(
            &xi.from_f64(t.table[graph.get_id()].generalized_dod)
                .inv(),
        );
    }

    let xi_trop = u_trop.ref_mul(&v_trop);
    let loop_number = t.table.last().unwrap().loop_number;
    let scaling = xi_trop.powf(&xi_trop.from_f64(f64_half_dim(t.dimension)));

    verif_cut_1(&mut x_vec, &scaling);

    u_trop = u_trop.one();
    x_vec
}
} // verus!
fn main() {}
