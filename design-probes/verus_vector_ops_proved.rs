use vstd::prelude::*;
use vstd::std_specs::core::*;
use vstd::std_specs::ops::*;
use std::array;
use std::ops::{Add, Index, Mul};
verus! {
#[verifier::external_body]
pub struct R { x: f64 }
pub type T = R;
pub uninterp spec fn add_s(a: R, b: R) -> R;
pub uninterp spec fn mul_s(a: R, b: R) -> R;
pub uninterp spec fn zero_s() -> R;
impl R {
    #[verifier::external_body]
    pub fn ref_add(&self, rhs: &R) -> (r: R) ensures r == add_s(*self, *rhs) { unimplemented!() }
    #[verifier::external_body]
    pub fn ref_mul(&self, rhs: &R) -> (r: R) ensures r == mul_s(*self, *rhs) { unimplemented!() }
    #[verifier::external_body]
    pub fn zero(&self) -> (r: R) ensures r == zero_s() { unimplemented!() }
}

// library contracts (A-LIB)
pub assume_specification<T, const N: usize, F: FnMut(usize) -> T>[ std::array::from_fn ](f: F) -> (r: [T; N])
    requires forall |i: usize| i < N ==> f.requires((i,)),
    ensures forall |i: usize| i < N ==> f.ensures((i,), #[trigger] r[i as int]),
;
pub assume_specification<T, const N: usize>[ <[T; N]>::each_ref ](a: &[T; N]) -> (r: [&T; N])
    ensures forall |i: int| 0 <= i < N ==> *#[trigger] r[i] == a[i],
;
pub assume_specification<T, const N: usize, F: FnMut(T) -> U, U>[ <[T; N]>::map ](a: [T; N], f: F) -> (r: [U; N])
    requires forall |i: int| 0 <= i < N ==> f.requires((#[trigger] a[i],)),
    ensures forall |i: int| 0 <= i < N ==> f.ensures((a[i],), #[trigger] r[i]),
;

#[derive(Clone, Copy, Debug)]
pub struct Vector<T, const D: usize> {
    pub elements: [T; D],
}
impl<const D: usize> IndexSpecImpl<usize> for Vector<T, D> {
    open spec fn index_req(&self, index: &usize) -> bool { *index < D }
}
impl<const D: usize> Index<usize> for Vector<T, D> {
    type Output = T;

    fn index(&self, index: usize) -> (r: &Self::Output)
        ensures *r == self.elements[index as int]
    {
        &self.elements[index]
    }
}
impl<'a, 'b, const D: usize> AddSpecImpl<&'b Vector<T, D>> for &'a Vector<T, D> {
    open spec fn obeys_add_spec() -> bool { false }
    open spec fn add_req(self, rhs: &'b Vector<T, D>) -> bool { true }
    open spec fn add_spec(self, rhs: &'b Vector<T, D>) -> Vector<T, D> { *self }
}
impl<const D: usize> Add<&Vector<T, D>> for &Vector<T, D> {
    type Output = Vector<T, D>;

    #[inline]
    fn add(self, rhs: &Vector<T, D>) -> (res: Self::Output)
        ensures forall |i: int| 0 <= i < D ==> #[trigger] res.elements[i] == add_s(self.elements[i], rhs.elements[i])
    {
        Self::Output {
            elements: array::from_fn(|i: usize| -> (o: T) requires i < D ensures o == add_s(self.elements[i as int], rhs.elements[i as int]) { self[i].ref_add(&rhs[i]) }),
        }
    }
}
impl<'a, 'b, const D: usize> MulSpecImpl<&'b T> for &'a Vector<T, D> {
    open spec fn obeys_mul_spec() -> bool { false }
    open spec fn mul_req(self, rhs: &'b T) -> bool { true }
    open spec fn mul_spec(self, rhs: &'b T) -> Vector<T, D> { *self }
}
impl<const D: usize> Mul<&T> for &Vector<T, D> {
    type Output = Vector<T, D>;

    fn mul(self, rhs: &T) -> (res: Self::Output) 
        ensures forall |i: int| 0 <= i < D ==> #[trigger] res.elements[i] == mul_s(self.elements[i], *rhs)
    {
        Self::Output {
            elements: self.elements.each_ref().map(|elem: &T| -> (o: T) ensures o == mul_s(*elem, *rhs) { elem.ref_mul(rhs) }),
        }
    }
}
} // verus!
fn main() {}
