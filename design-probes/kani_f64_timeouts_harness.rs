#[cfg(kani)]
mod verif_harness {
    use super::*;

    fn pos(x: f64) -> bool { x.is_finite() && x >= 1.0e-3 && x <= 1.0e3 }

    #[kani::proof]
    #[kani::unwind(5)]
    fn j_rec_e2() {
        let n = 2usize;
        let mut table = vec![OptionTropicalSubgraphTableEntry::all_none(); 4];
        let d: [f64; 4] = kani::any();
        for i in 0..4 { kani::assume(pos(d[i])); table[i].generalized_dod = Some(d[i]); }
        let full = TropicalSubGraphId::new(n);
        TropicalGraph::recursive_fill_j_function(&full, &mut table);
        let j0 = table[0].j_function.unwrap();
        let j1 = table[1].j_function.unwrap();
        let j2 = table[2].j_function.unwrap();
        let j3 = table[3].j_function.unwrap();
        assert!(j0 == 1.0);
        assert!(j1 == j0 / d[0]);
        assert!(j2 == j0 / d[0]);
        // edge 0 removed -> id 2 ; edge 1 removed -> id 1
        assert!(j3 == j2 / d[2] + j1 / d[1]);
    }

    #[kani::proof]
    #[kani::unwind(5)]
    fn sample_edge_total_e2() {
        let tg = TropicalGraph { dod: 1.0, topology: vec![
            TropicalEdge { edge_id: 0, left: 0, right: 1, weight: 1.0, is_massive: false },
            TropicalEdge { edge_id: 1, left: 0, right: 1, weight: 1.0, is_massive: false }],
            num_massive_edges: 0, external_vertices: vec![0, 1], num_loops: 1 };
        let d: [f64; 4] = kani::any();
        for i in 0..4 { kani::assume(pos(d[i])); }
        let j1 = 1.0 / d[0];
        let j2 = 1.0 / d[0];
        let j3 = j2 / d[2] + j1 / d[1];
        let e = |j: f64, w: f64| TropicalSubgraphTableEntry { loop_number: 0, mass_momentum_spanning: false, j_function: j, generalized_dod: w };
        let t = TropicalSubgraphTable { table: vec![e(1.0, d[0]), e(j1, d[1]), e(j2, d[2]), e(j3, d[3])], dimension: 3, tropical_graph: tg, cached_factor: 1.0 };
        let u: f64 = kani::any();
        kani::assume(u >= 0.0 && u < 1.0);
        let (edge, rest) = t.sample_edge(&u, &TropicalSubGraphId::new(2));
        assert!(edge < 2);
    }
}

// some tests
