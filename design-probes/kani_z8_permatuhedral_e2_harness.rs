// appended to src/sampling.rs of a scratch copy; needs verif_kani_pre::mk_table appended to src/preprocessing.rs and a cfg(kani) `counter()` accessor on MimicRng
// measured: 360 s; every functional assertion holds; the only failed check is the sample_edge fall-through panic (the kani::assume must precede the call)
#[cfg(kani)]
mod verif_kani {
    use super::*;
    use std::ops::*;
    #[derive(Clone, Copy, Debug, PartialEq, PartialOrd)]
    pub struct Z8(pub i8);
    fn pdiv(a: i8, b: i8) -> i8 { a.wrapping_mul(b.wrapping_mul(13).wrapping_add(7)) }
    trait PD { fn pd(self, o: i8) -> i8; } impl PD for i8 { fn pd(self, o: i8) -> i8 { pdiv(self, o) } }
    macro_rules! bin { ($tr:ident, $m:ident, $f:ident) => {
        impl $tr<Z8> for Z8 { type Output = Z8; fn $m(self, r: Z8) -> Z8 { Z8(self.0.$f(r.0)) } }
        impl<'a> $tr<&'a Z8> for Z8 { type Output = Z8; fn $m(self, r: &'a Z8) -> Z8 { Z8(self.0.$f(r.0)) } }
        impl<'a> $tr<Z8> for &'a Z8 { type Output = Z8; fn $m(self, r: Z8) -> Z8 { Z8(self.0.$f(r.0)) } }
        impl<'a, 'b> $tr<&'b Z8> for &'a Z8 { type Output = Z8; fn $m(self, r: &'b Z8) -> Z8 { Z8(self.0.$f(r.0)) } }
    }}
    bin!(Add, add, wrapping_add); bin!(Sub, sub, wrapping_sub); bin!(Mul, mul, wrapping_mul); bin!(Div, div, pd);
    impl Neg for Z8 { type Output = Z8; fn neg(self) -> Z8 { Z8(self.0.wrapping_neg()) } }
    impl<'a> Neg for &'a Z8 { type Output = Z8; fn neg(self) -> Z8 { Z8(self.0.wrapping_neg()) } }
    impl<'a> AddAssign<&'a Z8> for Z8 { fn add_assign(&mut self, r: &'a Z8) { self.0 = self.0.wrapping_add(r.0) } }
    impl<'a> SubAssign<&'a Z8> for Z8 { fn sub_assign(&mut self, r: &'a Z8) { self.0 = self.0.wrapping_sub(r.0) } }
    impl<'a> MulAssign<&'a Z8> for Z8 { fn mul_assign(&mut self, r: &'a Z8) { self.0 = self.0.wrapping_mul(r.0) } }
    fn pw(a: i8, p: i8) -> i8 { a.wrapping_mul(19).wrapping_add(p.wrapping_mul(23)) }
    impl MomTropFloat for Z8 {
        fn one(&self) -> Self { Z8(1) } fn ln(&self) -> Self { Z8(self.0.wrapping_mul(3).wrapping_add(1)) }
        fn exp(&self) -> Self { Z8(self.0.wrapping_mul(17).wrapping_add(9)) } fn cos(&self) -> Self { Z8(self.0.wrapping_mul(5).wrapping_add(2)) }
        fn sin(&self) -> Self { Z8(self.0.wrapping_mul(7).wrapping_add(3)) } fn powf(&self, p: &Self) -> Self { Z8(pw(self.0, p.0)) }
        fn sqrt(&self) -> Self { Z8(self.0.wrapping_mul(11).wrapping_add(5)) } fn from_isize(&self, v: isize) -> Self { Z8(v as i8) }
        fn from_f64(&self, v: f64) -> Self { Z8(v.to_bits() as i8) } fn inv(&self) -> Self { Z8(pdiv(1, self.0)) }
        fn to_f64(&self) -> f64 { panic!("narrowing") } fn zero(&self) -> Self { Z8(0) } fn abs(&self) -> Self { *self } fn PI(&self) -> Self { Z8(31) }
    }
    fn f2z(v: f64) -> Z8 { Z8(v.to_bits() as i8) }

    #[kani::proof]
    #[kani::unwind(6)]
    fn perm_e2() {
        let t = crate::preprocessing::verif_kani_pre::mk_table(2, 3);
        let xs: [i8; 3] = kani::any();
        let x = [Z8(xs[0]), Z8(xs[1]), Z8(xs[2])];
        let mut rng = MimicRng::new(&x);
        let s = TropicalSamplingSettings::default();
        let r = permatuhedral_sampling(&t, &mut rng, &s);
        // spec: first edge by sample_edge with u = x[0]; xi = x[1]; second edge forced, no read
        let full = 3usize;
        let j = f2z(t.table[full].j_function);
        let p0 = f2z(t.table[2].j_function) / j / f2z(t.table[2].generalized_dod);
        let first = if p0 >= x[0] { 0 } else { 1 };
        let rest = if first == 0 { 2usize } else { 1usize };
        let second = 1 - first;
        let k1 = Z8(1);
        let k2 = k1 * x[1].powf(&f2z(t.table[rest].generalized_dod).inv());
        let mut ut = Z8(1); let mut vt = Z8(1);
        if t.table[full].mass_momentum_spanning && !t.table[rest].mass_momentum_spanning { vt = k1; }
        if t.table[rest].loop_number < t.table[full].loop_number { ut = ut * k1; }
        if t.table[rest].mass_momentum_spanning && !t.table[0].mass_momentum_spanning { vt = k2; }
        if t.table[0].loop_number < t.table[rest].loop_number { ut = ut * k2; }
        let xi_trop = ut * vt;
        let half = f2z(3.0f64 / 2.0);
        let target = ut.powf(&f2z(-(3.0f64 / 2.0))) * (ut / xi_trop).powf(&f2z(t.tropical_graph.dod));
        let ln = t.table[3].loop_number;
        let scaling = target.powf(&f2z(3.0f64 / 2.0 * ln as f64 + t.tropical_graph.dod).inv());
        let _ = half;
        // fall-through panic of sample_edge is excluded here (checked separately): require total
        let p1 = f2z(t.table[1].j_function) / j / f2z(t.table[1].generalized_dod);
        kani::assume(p0 >= x[0] || p0 + p1 >= x[0]);
        assert!(r.x.len() == 2);
        assert!(r.x[first] == k1 * scaling);
        assert!(r.x[second] == k2 * scaling);
        assert!(r.u_trop == Z8(1) && r.v_trop == Z8(1));
        assert!(rng.counter() == 2);
    }
}

// ---- src/preprocessing.rs part ----
#[cfg(kani)]
pub(crate) mod verif_kani_pre {
    use super::*;
    /// symbolic table over a fixed 3-edge topology; flags/values symbolic
    pub(crate) fn mk_table(n: usize, dim: usize) -> TropicalSubgraphTable {
        let topology = (0..n).map(|i| TropicalEdge { edge_id: i as u8, left: 0, right: 1, weight: 1.0, is_massive: false }).collect::<Vec<_>>();
        let tg = TropicalGraph { dod: kani::any(), topology, num_massive_edges: 0, external_vertices: vec![0, 1], num_loops: n - 1 };
        let mut table = Vec::with_capacity(1 << n);
        for _ in 0..(1usize << n) {
            table.push(TropicalSubgraphTableEntry { loop_number: kani::any(), mass_momentum_spanning: kani::any(), j_function: kani::any(), generalized_dod: kani::any() });
        }
        TropicalSubgraphTable { table, dimension: dim, tropical_graph: tg, cached_factor: kani::any() }
    }
}
