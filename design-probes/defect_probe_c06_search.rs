use momtrop::{vector::Vector, Edge, Graph, TropicalSamplingSettings};
use rand::{Rng, SeedableRng};

#[test]
fn probe_c06_search() {
    let s = TropicalSamplingSettings::default();
    let top = 1.0 - f64::EPSILON / 2.0;
    let mut rng = rand::rngs::StdRng::seed_from_u64(1);
    let mut found = 0; let mut tried = 0;
    for _ in 0..3000 {
        let w: [f64; 3] = [rng.gen_range(0.55..1.4), rng.gen_range(0.55..1.4), rng.gen_range(0.55..1.4)];
        let g = Graph { edges: vec![
            Edge { vertices: (0,1), is_massive: false, weight: w[0] },
            Edge { vertices: (1,2), is_massive: false, weight: w[1] },
            Edge { vertices: (2,0), is_massive: false, weight: w[2] }], externals: vec![0,1,2] };
        let sampler = match g.build_sampler::<3>(vec![vec![1]; 3]) { Ok(s) => s, Err(_) => continue };
        tried += 1;
        let n = sampler.get_dimension();
        let p1 = Vector::from_array([3.0, 4.0, 5.0]);
        let p2 = Vector::from_array([6.0, 7.0, 8.0]);
        let ed = vec![(None, Vector::new_from_num(&1.0)), (None, p1), (None, &p1 + &p2)];
        let mut x = vec![0.37; n];
        x[0] = top;
        let r = std::panic::catch_unwind(|| sampler.generate_sample_from_x_space_point(&x, ed.clone(), &s).map(|r| r.jacobian));
        if r.is_err() { found += 1; if found <= 3 { println!("C06 PANIC weights {:?} x0={:e}", w, top); } }
    }
    println!("C06 tried {tried} panics found: {found}");
}
