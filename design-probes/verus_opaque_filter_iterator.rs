use vstd::prelude::*;
use vstd::std_specs::iter::IteratorSpec;
verus! {
global size_of usize == 8;
#[derive(Debug, Clone, Copy, PartialEq)]
pub struct TropicalSubGraphId {
    pub id: usize,
    pub num_edges: usize,
}
pub open spec fn bit(id: usize, e: int) -> bool { 0 <= e < 64 && (id & (1usize << (e as usize))) != 0 }

impl TropicalSubGraphId {
    fn has_edge(&self, edge_id: usize) -> (r: bool)
        requires edge_id < 64
        ensures r == bit(self.id, edge_id as int)
    {
        self.id & (1 << edge_id) != 0
    }

    pub fn contains_edges(&self) -> (r: impl Iterator<Item = usize> + '_)
       requires self.num_edges <= 64
       ensures r.obeys_prophetic_iter_laws(),
           r.remaining() == Seq::new(self.num_edges as nat, |i: int| i as usize).filter(|i: usize| bit(self.id, i as int)),
    {
        (0..self.num_edges).filter(|i: &usize| -> (b: bool) requires *i < 64 ensures b == bit(self.id, *i as int) { self.has_edge(*i) })
    }
}
fn user(s: &TropicalSubGraphId) -> (r: usize)
   requires s.num_edges <= 64
{
    let mut c = 0usize;
    for edge in it: s.contains_edges() 
       invariant c <= 100
    {
        assert(bit(s.id, edge as int));
        if c < 100 { c = c + 1; }
    }
    c
}
} // verus!
fn main() {}
