use vstd::prelude::*;
use vstd::std_specs::core::*;
use vstd::std_specs::ops::*;
use std::ops::{Index, IndexMut, Add, Mul, AddAssign};
verus! {
// ---------- preamble: abstract scalar ----------
#[verifier::external_body]
pub struct R { x: f64 }
pub type T = R;

impl R {
    pub uninterp spec fn val(&self) -> real;
    #[verifier::external_body]
    pub fn zero(&self) -> (r: R) ensures r.val() == 0real { R { x: 0.0 } }
    #[verifier::external_body]
    pub fn from_isize(&self, value: isize) -> (r: R) ensures r.val() == value as real { R { x: value as f64 } }
}
impl Clone for R {
    #[verifier::external_body]
    fn clone(&self) -> (r: R) ensures r.val() == self.val() { R { x: self.x } }
}
impl<'a> MulSpecImpl<&'a R> for R {
    open spec fn obeys_mul_spec() -> bool { false }
    open spec fn mul_req(self, rhs: &'a R) -> bool { true }
    open spec fn mul_spec(self, rhs: &'a R) -> R { self }
}
impl<'a> Mul<&'a R> for R {
    type Output = R;
    #[verifier::external_body]
    fn mul(self, rhs: &'a R) -> (r: R)
        ensures r.val() == self.val() * rhs.val()
    { R { x: self.x * rhs.x } }
}
impl<'a> AddAssignSpecImpl<&'a R> for R {
    open spec fn obeys_add_assign_spec() -> bool { false }
    open spec fn add_assign_req(&self, rhs: &'a R) -> bool { true }
    open spec fn add_assign_spec(&self, rhs: &'a R) -> &R { self }
}
impl<'a> AddAssign<&'a R> for R {
    #[verifier::external_body]
    fn add_assign(&mut self, rhs: &'a R)
        ensures final(self).val() == old(self).val() + rhs.val()
    { self.x += rhs.x }
}


impl R {
    #[verifier::external_body]
    pub fn one(&self) -> (r: R) ensures r.val() == 1real { unimplemented!() }
    #[verifier::external_body]
    pub fn sqrt(&self) -> (r: R) ensures self.val() >= 0real ==> (r.val() >= 0real && r.val() * r.val() == self.val()) { unimplemented!() }
    #[verifier::external_body]
    pub fn inv(&self) -> (r: R) ensures self.val() != 0real ==> r.val() * self.val() == 1real { unimplemented!() }
    #[verifier::external_body]
    pub fn ref_mul(&self, rhs: &R) -> (r: R) ensures r.val() == self.val() * rhs.val() { unimplemented!() }
    #[verifier::external_body]
    pub fn ref_add(&self, rhs: &R) -> (r: R) ensures r.val() == self.val() + rhs.val() { unimplemented!() }
    #[verifier::external_body]
    pub fn ref_sub(&self, rhs: &R) -> (r: R) ensures r.val() == self.val() - rhs.val() { unimplemented!() }
    #[verifier::external_body]
    pub fn from_f64(&self, value: f64) -> (r: R) { unimplemented!() }
}
impl<'a> std::ops::SubAssign<&'a R> for R {
    #[verifier::external_body]
    fn sub_assign(&mut self, rhs: &'a R)
        ensures final(self).val() == old(self).val() - rhs.val()
    { unimplemented!() }
}
impl<'a> std::ops::MulAssign<&'a R> for R {
    #[verifier::external_body]
    fn mul_assign(&mut self, rhs: &'a R)
        ensures final(self).val() == old(self).val() * rhs.val()
    { unimplemented!() }
}
impl<'a> std::ops::Div<&'a R> for R {
    type Output = R;
    #[verifier::external_body]
    fn div(self, rhs: &'a R) -> (r: R)
        ensures rhs.val() != 0real ==> r.val() * rhs.val() == self.val()
    { unimplemented!() }
}
impl PartialEq for R {
    #[verifier::external_body]
    fn eq(&self, other: &R) -> (b: bool) ensures b == (self.val() == other.val()) { unimplemented!() }
}
impl PartialOrd for R {
    #[verifier::external_body]
    fn partial_cmp(&self, other: &R) -> (o: Option<std::cmp::Ordering>) { unimplemented!() }
    #[verifier::external_body]
    fn gt(&self, other: &R) -> (b: bool) ensures b == (self.val() > other.val()) { unimplemented!() }
}
pub struct TropicalSamplingSettings {
    pub matrix_stability_test: Option<f64>,
    pub print_debug_info: bool,
    pub return_metadata: bool,
}
#[derive(Clone, Copy, Debug)]
pub enum MatrixError { ZeroDet, Unstable }
pub struct DecompositionResult<T> {
    pub determinant: T,
    pub inverse: SquareMatrix<T>,
    pub q_transposed: SquareMatrix<T>,
    pub q_transposed_inverse: SquareMatrix<T>,
}
// ---------- matrix.rs (extracted; SmallVec -> Vec) ----------
pub struct SquareMatrix<T> {
    pub data: Vec<T>,
    pub dim: usize,
}
impl SquareMatrix<T> {
    pub open spec fn wf(&self) -> bool { self.data.len() == self.dim * self.dim }
    pub open spec fn at(&self, i: int, j: int) -> real { self.data[i * self.dim + j].val() }
}

impl IndexSpecImpl<(usize, usize)> for SquareMatrix<T> {
    open spec fn index_req(&self, index: &(usize, usize)) -> bool { self.wf() && index.0 < self.dim && index.1 < self.dim }
}
impl Index<(usize, usize)> for SquareMatrix<T> {
    type Output = T;

    fn index(&self, index: (usize, usize)) -> (r: &Self::Output)
        ensures *r == self.data[index.0 * self.dim + index.1]
    {
        proof { lemma_idx(index.0 as int, index.1 as int, self.dim as int); }
        &self.data[index.0 * self.dim + index.1]
    }
}

impl IndexMut<(usize, usize)> for SquareMatrix<T> {
    fn index_mut(&mut self, index: (usize, usize)) -> (r: &mut Self::Output)
        ensures
            *r == old(self).data[index.0 * old(self).dim + index.1],
            final(self).dim == old(self).dim,
            final(self).data@ == old(self).data@.update(index.0 * old(self).dim + index.1, *final(r)),
            final(self).wf(),
            forall |a: int, b: int| 0 <= a < old(self).dim && 0 <= b < old(self).dim ==> #[trigger] final(self).at(a, b) == (if a == index.0 && b == index.1 { final(r).val() } else { old(self).at(a, b) }),
    {
        proof { lemma_idx(index.0 as int, index.1 as int, self.dim as int);
            let d = self.dim as int;
            assert forall |a: int, b: int| 0 <= a < d && 0 <= b < d && !(a == index.0 && b == index.1) implies #[trigger] (a * d + b) != index.0 * d + index.1 && 0 <= a * d + b < d * d by {
                lemma_flat(a, b, d);
                if a * d + b == index.0 * d + index.1 {
                    assert(a == index.0 as int) by(nonlinear_arith) requires 0 <= b < d, 0 <= index.1 < d, a * d + b == index.0 * d + index.1, 0 < d;
                }
            }
        }
        &mut self.data[index.0 * self.dim + index.1]
    }
}

proof fn lemma_idx(i: int, j: int, d: int)
    requires 0 <= i < d, 0 <= j < d
    ensures 0 <= i * d + j < d * d, i * d <= usize::MAX || d * d > usize::MAX
{
    assert(i * d + j < d * d) by(nonlinear_arith) requires 0 <= i < d, 0 <= j < d;
    assert(0 <= i * d) by(nonlinear_arith) requires 0 <= i < d;
}

impl SquareMatrix<T> {
    #[verifier::external_body]
    pub fn new_zeros_from_num(builder: &T, dim: usize) -> (r: Self)
        ensures r.wf(), r.dim == dim, forall |i: int, j: int| 0 <= i < dim && 0 <= j < dim ==> r.at(i, j) == 0real
    {
        unimplemented!()
    }
}

pub open spec fn sig_ok(sig: Seq<Vec<isize>>, nl: int) -> bool {
    forall |e: int, l: int| 0 <= e < sig.len() && 0 <= l < nl ==> (#[trigger] sig[e].len() == nl) && -1 <= #[trigger] sig[e][l] <= 1
}

pub open spec fn l_sum(x: Seq<T>, sig: Seq<Vec<isize>>, i: int, j: int, n: int) -> real
    decreases n
{
    if n <= 0 { 0real } else { l_sum(x, sig, i, j, n - 1) + (sig[n - 1][i] * sig[n - 1][j]) as real * x[n - 1].val() }
}

fn compute_l_matrix(
    x_vec: &[T],
    signature_matrix: &[Vec<isize>],
) -> (res: SquareMatrix<T>)
    requires
        signature_matrix.len() >= 1,
        x_vec.len() == signature_matrix.len(),
        signature_matrix[0].len() >= 1,
        forall |e: int| 0 <= e < signature_matrix.len() ==> (#[trigger] signature_matrix[e]).len() == signature_matrix[0].len(),
        forall |e: int, l: int| 0 <= e < signature_matrix.len() && 0 <= l < signature_matrix[0].len() ==> -1 <= #[trigger] signature_matrix[e][l] <= 1,
        signature_matrix[0].len() * signature_matrix[0].len() <= usize::MAX,
    ensures
        res.wf(), res.dim == signature_matrix[0].len(),
        forall |i: int, j: int| 0 <= i < res.dim && 0 <= j < res.dim ==> res.at(i, j) == l_sum(x_vec@, signature_matrix@, i, j, x_vec.len() as int),
        forall |i: int, j: int| 0 <= i < res.dim && 0 <= j < res.dim ==> res.at(i, j) == res.at(j, i),
{
    let num_edges = signature_matrix.len();
    let num_loops = signature_matrix[0].len();

    let mut temp_l_matrix = SquareMatrix::new_zeros_from_num(&x_vec[0], num_loops);

    for i in 0..num_loops
        invariant
            num_edges == signature_matrix.len(), num_loops == signature_matrix[0].len(), x_vec.len() == num_edges,
            forall |e: int| 0 <= e < signature_matrix.len() ==> (#[trigger] signature_matrix[e]).len() == num_loops,
            forall |e: int, l: int| 0 <= e < signature_matrix.len() && 0 <= l < num_loops ==> -1 <= #[trigger] signature_matrix[e][l] <= 1,
            temp_l_matrix.wf(), temp_l_matrix.dim == num_loops,
            forall |a: int, b: int| 0 <= a < num_loops && 0 <= b < num_loops && (a < i || b < i) ==> #[trigger] temp_l_matrix.at(a, b) == l_sum(x_vec@, signature_matrix@, a, b, num_edges as int),
            forall |a: int, b: int| i <= a < num_loops && i <= b < num_loops ==> #[trigger] temp_l_matrix.at(a, b) == 0real,
    {
        for j in i..num_loops
            invariant
                i < num_loops,
                num_edges == signature_matrix.len(), num_loops == signature_matrix[0].len(), x_vec.len() == num_edges,
                forall |e: int| 0 <= e < signature_matrix.len() ==> (#[trigger] signature_matrix[e]).len() == num_loops,
                forall |e: int, l: int| 0 <= e < signature_matrix.len() && 0 <= l < num_loops ==> -1 <= #[trigger] signature_matrix[e][l] <= 1,
                temp_l_matrix.wf(), temp_l_matrix.dim == num_loops,
                forall |a: int, b: int| 0 <= a < num_loops && 0 <= b < num_loops && (a < i || b < i || (a == i && b < j) || (b == i && a < j)) ==> #[trigger] temp_l_matrix.at(a, b) == l_sum(x_vec@, signature_matrix@, a, b, num_edges as int),
                forall |a: int, b: int| i <= a < num_loops && i <= b < num_loops && !((a == i && b < j) || (b == i && a < j)) ==> #[trigger] temp_l_matrix.at(a, b) == 0real,
        {
            for e in 0..num_edges
                invariant
                    i <= j < num_loops,
                    num_edges == signature_matrix.len(), num_loops == signature_matrix[0].len(), x_vec.len() == num_edges,
                    forall |e: int| 0 <= e < signature_matrix.len() ==> (#[trigger] signature_matrix[e]).len() == num_loops,
                    forall |e: int, l: int| 0 <= e < signature_matrix.len() && 0 <= l < num_loops ==> -1 <= #[trigger] signature_matrix[e][l] <= 1,
                    temp_l_matrix.wf(), temp_l_matrix.dim == num_loops,
                    forall |a: int, b: int| 0 <= a < num_loops && 0 <= b < num_loops && (a < i || b < i || (a == i && b < j) || (b == i && a < j)) ==> #[trigger] temp_l_matrix.at(a, b) == l_sum(x_vec@, signature_matrix@, a, b, num_edges as int),
                    forall |a: int, b: int| i <= a < num_loops && i <= b < num_loops && !((a == i && b <= j) || (b == i && a <= j)) ==> #[trigger] temp_l_matrix.at(a, b) == 0real,
                    temp_l_matrix.at(i as int, j as int) == l_sum(x_vec@, signature_matrix@, i as int, j as int, e as int),
                    temp_l_matrix.at(j as int, i as int) == l_sum(x_vec@, signature_matrix@, j as int, i as int, e as int),
            {
                proof {
                    let a = signature_matrix[e as int][i as int]; let b = signature_matrix[e as int][j as int];
                    assert(-1 <= a * b <= 1) by(nonlinear_arith) requires -1 <= a <= 1, -1 <= b <= 1;
                    assert(a * b == b * a) by(nonlinear_arith);
                    lemma_flat(i as int, j as int, num_loops as int);
                    lemma_flat(j as int, i as int, num_loops as int);
                    lemma_flat_inj(num_loops as int);
                }
                let add = ::core::ops::Mul::mul(x_vec[e].from_isize(signature_matrix[e][i] * signature_matrix[e][j])
                    , &x_vec[e]);
                if i == j {
                    temp_l_matrix[(i, j)] += &add;
                } else {
                    temp_l_matrix[(i, j)] += &add;
                    temp_l_matrix[(j, i)] += &add;
                }
            }
        }
    }
    proof {
        assert forall |a: int, b: int| 0 <= a < num_loops && 0 <= b < num_loops implies temp_l_matrix.at(a, b) == temp_l_matrix.at(b, a) by {
            lemma_l_sum_sym(x_vec@, signature_matrix@, a, b, num_edges as int);
        }
    }

    temp_l_matrix
}

proof fn lemma_flat(i: int, j: int, d: int)
    requires 0 <= i < d, 0 <= j < d
    ensures 0 <= i * d + j < d * d
{
    assert(i * d + j < d * d) by(nonlinear_arith) requires 0 <= i < d, 0 <= j < d;
    assert(0 <= i * d) by(nonlinear_arith) requires 0 <= i < d;
}
proof fn lemma_flat_inj(d: int)
    requires 0 < d
    ensures forall |a: int, b: int, a2: int, b2: int| 0 <= a < d && 0 <= b < d && 0 <= a2 < d && 0 <= b2 < d && #[trigger] (a * d + b) == #[trigger] (a2 * d + b2) ==> a == a2 && b == b2
{
    assert forall |a: int, b: int, a2: int, b2: int| 0 <= a < d && 0 <= b < d && 0 <= a2 < d && 0 <= b2 < d && #[trigger] (a * d + b) == #[trigger] (a2 * d + b2) implies a == a2 && b == b2 by {
        assert(a == a2) by(nonlinear_arith) requires 0 <= b < d, 0 <= b2 < d, a * d + b == a2 * d + b2, 0 < d;
    }
}
proof fn lemma_l_sum_sym(x: Seq<T>, sig: Seq<Vec<isize>>, i: int, j: int, n: int)
    ensures l_sum(x, sig, i, j, n) == l_sum(x, sig, j, i, n)
    decreases n
{
    if n > 0 {
        lemma_l_sum_sym(x, sig, i, j, n - 1);
        assert(sig[n - 1][i] * sig[n - 1][j] == sig[n - 1][j] * sig[n - 1][i]) by(nonlinear_arith);
    }
}

impl SquareMatrix<T> {
    #[verifier::external_body]
    pub fn new_zeros(&self, dim: usize) -> (r: Self)
        ensures r.wf(), r.dim == dim, forall |i: int, j: int| 0 <= i < dim && 0 <= j < dim ==> r.at(i, j) == 0real
    { unimplemented!() }
    #[verifier::external_body]
    fn new_identity(&self, dim: usize) -> (r: Self)
        ensures r.wf(), r.dim == dim
    { unimplemented!() }
    #[verifier::external_body]
    fn l21_norm(&self) -> (r: T)
    { unimplemented!() }
    #[verifier::external_body]
    fn mm(&self, rhs: &Self) -> (r: Self) ensures r.wf(), r.dim == self.dim { unimplemented!() }
    #[verifier::external_body]
    fn msub(&self, rhs: &Self) -> (r: Self) ensures r.wf(), r.dim == self.dim { unimplemented!() }
    #[verifier::external_body]
    fn madd(&self, rhs: &Self) -> (r: Self) ensures r.wf(), r.dim == self.dim { unimplemented!() }

    pub fn decompose_for_tropical(
        &self,
        settings: &TropicalSamplingSettings,
    ) -> (res: Result<DecompositionResult<T>, MatrixError>)
        requires self.wf(), self.dim >= 1
    {
        let const_builder = &self.data[0];

        // start cholesky decomposition
        let mut q = self.new_zeros(self.dim);

        for i in 0..self.dim 
            invariant q.wf(), q.dim == self.dim, self.wf()
        {
            let mut diagonal_entry_squared = self[(i, i)].clone();
            for j in 0..i 
                invariant q.wf(), q.dim == self.dim, self.wf(), i < self.dim
            {
                diagonal_entry_squared -= &q[(i, j)].ref_mul(&q[(i, j)]);
            }

            let diagonal_entry = diagonal_entry_squared.sqrt();
            q[(i, i)] = diagonal_entry.clone();

            for j in i + 1..self.dim 
                invariant q.wf(), q.dim == self.dim, self.wf(), i < self.dim
            {
                let mut entry = self[(i, j)].clone();
                for k in 0..i 
                    invariant q.wf(), q.dim == self.dim, self.wf(), i < j < self.dim
                {
                    entry -= &q[(i, k)].ref_mul(&q[(j, k)]);
                }
                q[(j, i)] = ::core::ops::Div::div(entry, &diagonal_entry);
            }
        }
        // end cholesky decomposition

        // compute the determinant of Q and store the invesrses of the diagonal elements
        let mut det_q = const_builder.one();
        let mut inverse_diagonal_entries = Vec::<T>::new();

        for i in 0..self.dim 
            invariant q.wf(), q.dim == self.dim, self.wf(), inverse_diagonal_entries.len() == i
        {
            let q_ii = q[(i, i)].clone();
            det_q *= &q_ii;
            inverse_diagonal_entries.push(q_ii.inv());
        }

        let determinant = det_q.ref_mul(&det_q);

        if det_q == const_builder.zero() {
            return Err(MatrixError::ZeroDet);
        }

        // the matrix N is defined through Q = D(I + N)
        let mut n_matrix = self.new_zeros(self.dim);
        for row in 1..self.dim 
            invariant q.wf(), q.dim == self.dim, self.wf(), inverse_diagonal_entries.len() == self.dim, n_matrix.wf(), n_matrix.dim == self.dim
        {
            let inverse_diagonal_element = &inverse_diagonal_entries[row];
            for col in 0..row 
                invariant q.wf(), q.dim == self.dim, self.wf(), inverse_diagonal_entries.len() == self.dim, n_matrix.wf(), n_matrix.dim == self.dim, row < self.dim
            {
                n_matrix[(row, col)] = inverse_diagonal_element.ref_mul(&q[(row, col)]);
            }
        }

        let max_non_zero_power_of_n = self.dim - 1;

        // this algorithm is unoptizmied, will optimize later if this works
        let mut powers_of_n = Vec::<SquareMatrix<T>>::new();
        powers_of_n.push(n_matrix);

        for _ in 1..max_non_zero_power_of_n 
            invariant powers_of_n.len() >= 1
        {
            let last_power_of_n = powers_of_n
                .last()
                .unwrap_or_else(|| unreachable!("Never empty due to push before"));
            let first_power_of_n = powers_of_n
                .first()
                .unwrap_or_else(|| unreachable!("Never empty due to push before"));
            powers_of_n.push(last_power_of_n.mm(first_power_of_n));
        }

        if let Some(tolerance) = settings.matrix_stability_test {
            let error = self.l21_norm();
            if error > error.from_f64(tolerance) {
                return Err(MatrixError::Unstable);
            }
        }
        Err(MatrixError::Unstable)
    }
}
} // verus!
fn main() {}
