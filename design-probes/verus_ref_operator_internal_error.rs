use vstd::prelude::*;
use vstd::std_specs::ops::*;
use std::ops::{Mul};
verus! {
pub struct R { pub x: u64 }
impl<'a> Mul<&'a R> for R {
    type Output = R;
    fn mul(self, rhs: &'a R) -> (r: R)
    { R { x: 0 } }
}
fn test(a: R, b: R) -> (c: R)
{
    let c = a * &b;
    c
}
} // verus!
fn main() {}
