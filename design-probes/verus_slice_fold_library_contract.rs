use vstd::prelude::*;
use vstd::std_specs::iter::IteratorSpec;
verus! {
#[verifier::external_body]
pub struct R { x: f64 }
pub uninterp spec fn mul_s(a: R, b: R) -> R;
pub uninterp spec fn add_s(a: R, b: R) -> R;
pub uninterp spec fn zero_s() -> R;
impl R {
    #[verifier::external_body]
    pub fn zero(&self) -> (r: R) ensures r == zero_s() { R { x: 0.0 } }
    #[verifier::external_body]
    pub fn ref_mul(&self, rhs: &R) -> (r: R) ensures r == mul_s(*self, *rhs) { R { x: self.x * rhs.x } }
    #[verifier::external_body]
    pub fn add(self, rhs: R) -> (r: R) ensures r == add_s(self, rhs) { R { x: self.x + rhs.x } }
}

pub open spec fn fold_spec<T, B>(s: Seq<T>, init: B, f: spec_fn(B, T) -> B) -> B
    decreases s.len()
{
    if s.len() == 0 { init } else { f(fold_spec(s.drop_last(), init, f), s.last()) }
}

pub assume_specification<'a, T, B, F: FnMut(B, &'a T) -> B> [<std::slice::Iter<'a, T> as std::iter::Iterator>::fold] (it: std::slice::Iter<'a, T>, init: B, f: F) -> (r: B)
    requires
        forall |acc: B, x: &'a T| f.requires((acc, x)),
    ensures
        exists |accs: Seq<B>| #![trigger accs.len()] accs.len() == it.remaining().len() + 1 && accs[0] == init && r == accs.last()
            && forall |k: int| 0 <= k < accs.len() - 1 ==> f.ensures((#[trigger] accs[k], it.remaining()[k]), accs[k + 1]),
;

pub struct Vector3 { pub elements: [R; 3] }

impl Vector3 {
    pub fn squared(&self) -> (r: R)
        ensures r == add_s(add_s(add_s(zero_s(), mul_s(self.elements[0], self.elements[0])), mul_s(self.elements[1], self.elements[1])), mul_s(self.elements[2], self.elements[2]))
    {
        let r = self.elements
            .iter()
            .fold(self.elements[0].zero(), |acc: R, x: &R| -> (o: R) ensures o == add_s(acc, mul_s(*x, *x)) { acc.add(x.ref_mul(x)) });
        proof {
            let accs = choose |accs: Seq<R>| #![trigger accs.len()] accs.len() == 4 && accs[0] == zero_s() && r == accs.last()
               && forall |k: int| 0 <= k < accs.len() - 1 ==> accs[k+1] == add_s(#[trigger] accs[k], mul_s(self.elements[k], self.elements[k]));
            assert(accs.len() == 4);
            assert(accs[1] == add_s(accs[0], mul_s(self.elements[0], self.elements[0])));
            assert(accs[2] == add_s(accs[1], mul_s(self.elements[1], self.elements[1])));
            assert(accs[3] == add_s(accs[2], mul_s(self.elements[2], self.elements[2])));
        }
        r
    }
}
} // verus!
fn main() {}
