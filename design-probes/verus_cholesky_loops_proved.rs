use vstd::prelude::*;
use vstd::std_specs::core::*;
use vstd::std_specs::ops::*;
use std::ops::{Index, IndexMut, Add, Mul, AddAssign};
verus! {
// ---------- preamble: abstract scalar ----------
#[verifier::external_body]
pub struct R { x: f64 }
pub type T = R;

impl R {
    pub uninterp spec fn val(&self) -> real;
    #[verifier::external_body]
    pub fn zero(&self) -> (r: R) ensures r.val() == 0real { R { x: 0.0 } }
    #[verifier::external_body]
    pub fn from_isize(&self, value: isize) -> (r: R) ensures r.val() == value as real { R { x: value as f64 } }
}
impl Clone for R {
    #[verifier::external_body]
    fn clone(&self) -> (r: R) ensures r.val() == self.val() { R { x: self.x } }
}
impl<'a> MulSpecImpl<&'a R> for R {
    open spec fn obeys_mul_spec() -> bool { false }
    open spec fn mul_req(self, rhs: &'a R) -> bool { true }
    open spec fn mul_spec(self, rhs: &'a R) -> R { self }
}
impl<'a> Mul<&'a R> for R {
    type Output = R;
    #[verifier::external_body]
    fn mul(self, rhs: &'a R) -> (r: R)
        ensures r.val() == self.val() * rhs.val()
    { R { x: self.x * rhs.x } }
}
impl<'a> AddAssignSpecImpl<&'a R> for R {
    open spec fn obeys_add_assign_spec() -> bool { false }
    open spec fn add_assign_req(&self, rhs: &'a R) -> bool { true }
    open spec fn add_assign_spec(&self, rhs: &'a R) -> &R { self }
}
impl<'a> AddAssign<&'a R> for R {
    #[verifier::external_body]
    fn add_assign(&mut self, rhs: &'a R)
        ensures final(self).val() == old(self).val() + rhs.val()
    { self.x += rhs.x }
}


impl R {
    #[verifier::external_body]
    pub fn one(&self) -> (r: R) ensures r.val() == 1real { unimplemented!() }
    #[verifier::external_body]
    pub fn sqrt(&self) -> (r: R) ensures self.val() >= 0real ==> (r.val() >= 0real && r.val() * r.val() == self.val()) { unimplemented!() }
    #[verifier::external_body]
    pub fn inv(&self) -> (r: R) ensures self.val() != 0real ==> r.val() * self.val() == 1real { unimplemented!() }
    #[verifier::external_body]
    pub fn ref_mul(&self, rhs: &R) -> (r: R) ensures r.val() == self.val() * rhs.val() { unimplemented!() }
    #[verifier::external_body]
    pub fn ref_add(&self, rhs: &R) -> (r: R) ensures r.val() == self.val() + rhs.val() { unimplemented!() }
    #[verifier::external_body]
    pub fn ref_sub(&self, rhs: &R) -> (r: R) ensures r.val() == self.val() - rhs.val() { unimplemented!() }
    #[verifier::external_body]
    pub fn from_f64(&self, value: f64) -> (r: R) { unimplemented!() }
}
impl<'a> SubAssignSpecImpl<&'a R> for R {
    open spec fn obeys_sub_assign_spec() -> bool { false }
    open spec fn sub_assign_req(&self, rhs: &'a R) -> bool { true }
    open spec fn sub_assign_spec(&self, rhs: &'a R) -> &R { self }
}
impl<'a> DivSpecImpl<&'a R> for R {
    open spec fn obeys_div_spec() -> bool { false }
    open spec fn div_req(self, rhs: &'a R) -> bool { true }
    open spec fn div_spec(self, rhs: &'a R) -> R { self }
}
impl<'a> std::ops::SubAssign<&'a R> for R {
    #[verifier::external_body]
    fn sub_assign(&mut self, rhs: &'a R)
        ensures final(self).val() == old(self).val() - rhs.val()
    { unimplemented!() }
}
impl<'a> std::ops::MulAssign<&'a R> for R {
    #[verifier::external_body]
    fn mul_assign(&mut self, rhs: &'a R)
        ensures final(self).val() == old(self).val() * rhs.val()
    { unimplemented!() }
}
impl<'a> std::ops::Div<&'a R> for R {
    type Output = R;
    #[verifier::external_body]
    fn div(self, rhs: &'a R) -> (r: R)
        ensures rhs.val() != 0real ==> r.val() * rhs.val() == self.val()
    { unimplemented!() }
}
impl PartialEq for R {
    #[verifier::external_body]
    fn eq(&self, other: &R) -> (b: bool) ensures b == (self.val() == other.val()) { unimplemented!() }
}
impl PartialOrd for R {
    #[verifier::external_body]
    fn partial_cmp(&self, other: &R) -> (o: Option<std::cmp::Ordering>) { unimplemented!() }
    #[verifier::external_body]
    fn gt(&self, other: &R) -> (b: bool) ensures b == (self.val() > other.val()) { unimplemented!() }
}
pub struct TropicalSamplingSettings {
    pub matrix_stability_test: Option<f64>,
    pub print_debug_info: bool,
    pub return_metadata: bool,
}
#[derive(Clone, Copy, Debug)]
pub enum MatrixError { ZeroDet, Unstable }
pub struct DecompositionResult<T> {
    pub determinant: T,
    pub inverse: SquareMatrix<T>,
    pub q_transposed: SquareMatrix<T>,
    pub q_transposed_inverse: SquareMatrix<T>,
}
// ---------- matrix.rs (extracted; SmallVec -> Vec) ----------
pub struct SquareMatrix<T> {
    pub data: Vec<T>,
    pub dim: usize,
}
impl SquareMatrix<T> {
    pub open spec fn wf(&self) -> bool { self.data.len() == self.dim * self.dim }
    pub open spec fn at(&self, i: int, j: int) -> real { self.data[i * self.dim + j].val() }
}

impl IndexSpecImpl<(usize, usize)> for SquareMatrix<T> {
    open spec fn index_req(&self, index: &(usize, usize)) -> bool { self.wf() && index.0 < self.dim && index.1 < self.dim }
}
impl Index<(usize, usize)> for SquareMatrix<T> {
    type Output = T;

    fn index(&self, index: (usize, usize)) -> (r: &Self::Output)
        ensures *r == self.data[index.0 * self.dim + index.1]
    {
        proof { lemma_idx(index.0 as int, index.1 as int, self.dim as int); }
        &self.data[index.0 * self.dim + index.1]
    }
}

impl IndexMut<(usize, usize)> for SquareMatrix<T> {
    fn index_mut(&mut self, index: (usize, usize)) -> (r: &mut Self::Output)
        ensures
            *r == old(self).data[index.0 * old(self).dim + index.1],
            final(self).dim == old(self).dim,
            final(self).data@ == old(self).data@.update(index.0 * old(self).dim + index.1, *final(r)),
            final(self).wf(),
            forall |a: int, b: int| 0 <= a < old(self).dim && 0 <= b < old(self).dim ==> #[trigger] final(self).at(a, b) == (if a == index.0 && b == index.1 { final(r).val() } else { old(self).at(a, b) }),
    {
        proof { lemma_idx(index.0 as int, index.1 as int, self.dim as int);
            let d = self.dim as int;
            assert forall |a: int, b: int| 0 <= a < d && 0 <= b < d && !(a == index.0 && b == index.1) implies #[trigger] (a * d + b) != index.0 * d + index.1 && 0 <= a * d + b < d * d by {
                lemma_flat(a, b, d);
                if a * d + b == index.0 * d + index.1 {
                    assert(a == index.0 as int) by(nonlinear_arith) requires 0 <= b < d, 0 <= index.1 < d, a * d + b == index.0 * d + index.1, 0 < d;
                }
            }
        }
        &mut self.data[index.0 * self.dim + index.1]
    }
}

proof fn lemma_idx(i: int, j: int, d: int)
    requires 0 <= i < d, 0 <= j < d
    ensures 0 <= i * d + j < d * d, i * d <= usize::MAX || d * d > usize::MAX
{
    assert(i * d + j < d * d) by(nonlinear_arith) requires 0 <= i < d, 0 <= j < d;
    assert(0 <= i * d) by(nonlinear_arith) requires 0 <= i < d;
}


impl SquareMatrix<T> {
    #[verifier::external_body]
    pub fn new_zeros(&self, dim: usize) -> (r: Self)
        ensures r.wf(), r.dim == dim, forall |i: int, j: int| 0 <= i < dim && 0 <= j < dim ==> #[trigger] r.at(i, j) == 0real
    { unimplemented!() }
}

// partial row dot product: sum_{k<n} q[i][k]*q[j][k]
pub open spec fn rdot(q: SquareMatrix<T>, i: int, j: int, n: int) -> real
    decreases n
{
    if n <= 0 { 0real } else { rdot(q, i, j, n - 1) + q.at(i, n - 1) * q.at(j, n - 1) }
}
pub open spec fn colprod(q: SquareMatrix<T>, c: int, a: int) -> real { rdot(q, c, a, c + 1) }
pub open spec fn pivot(m: SquareMatrix<T>, q: SquareMatrix<T>, c: int) -> real { m.at(c, c) - rdot(q, c, c, c) }

proof fn lemma_rdot_frame(q1: SquareMatrix<T>, q2: SquareMatrix<T>, i: int, j: int, n: int)
    requires forall |k: int| 0 <= k < n ==> q1.at(i, k) == q2.at(i, k) && q1.at(j, k) == q2.at(j, k)
    ensures rdot(q1, i, j, n) == rdot(q2, i, j, n)
    decreases n
{
    if n > 0 { lemma_rdot_frame(q1, q2, i, j, n - 1); }
}

// q2 differs from q1 only in column `col`: everything computed from columns < col+... is kept
proof fn lemma_done_frame(m: SquareMatrix<T>, q1: SquareMatrix<T>, q2: SquareMatrix<T>, col: int, upto: int)
    requires
        q1.dim == q2.dim, upto <= col,
        forall |a: int, b: int| 0 <= a < q1.dim && 0 <= b < col ==> q1.at(a, b) == q2.at(a, b),
        forall |c: int, a: int| 0 <= c < upto && c <= a < q1.dim && pivot(m, q1, c) > 0real ==> #[trigger] colprod(q1, c, a) == m.at(c, a),
    ensures
        forall |c: int, a: int| 0 <= c < upto && c <= a < q1.dim && pivot(m, q2, c) > 0real ==> #[trigger] colprod(q2, c, a) == m.at(c, a),
{
    assert forall |c: int, a: int| 0 <= c < upto && c <= a < q1.dim && pivot(m, q2, c) > 0real implies #[trigger] colprod(q2, c, a) == m.at(c, a) by {
        lemma_rdot_frame(q1, q2, c, c, c);
        lemma_rdot_frame(q1, q2, c, a, c + 1);
        assert(colprod(q1, c, a) == m.at(c, a));
    }
}

pub open spec fn sym(a: SquareMatrix<T>) -> bool {
    forall |i: int, j: int| 0 <= i < a.dim && 0 <= j < a.dim ==> #[trigger] a.at(i, j) == a.at(j, i)
}

impl SquareMatrix<T> {
    // the Cholesky part of decompose_for_tropical, verbatim loop text (matrix.rs:133-151)
    pub fn cholesky_part(&self) -> (q: Self)
        requires self.wf(), self.dim >= 1, sym(*self)
        ensures
            q.wf(), q.dim == self.dim,
            forall |i: int, j: int| 0 <= i < j < self.dim ==> #[trigger] q.at(i, j) == 0real,
            forall |c: int, a: int| 0 <= c < self.dim && c <= a < self.dim && pivot(*self, q, c) > 0real ==> #[trigger] colprod(q, c, a) == self.at(c, a),
            forall |c: int| 0 <= c < self.dim && pivot(*self, q, c) > 0real ==> #[trigger] q.at(c, c) > 0real,
    {
        let mut q = self.new_zeros(self.dim);

        for i in 0..self.dim
            invariant
                self.wf(), self.dim >= 1, sym(*self), q.wf(), q.dim == self.dim,
                forall |a: int, b: int| 0 <= a < self.dim && i <= b < self.dim ==> #[trigger] q.at(a, b) == 0real,
                forall |a: int, b: int| 0 <= a < b < self.dim ==> #[trigger] q.at(a, b) == 0real,
                forall |c: int, a: int| 0 <= c < i && c <= a < self.dim && pivot(*self, q, c) > 0real ==> #[trigger] colprod(q, c, a) == self.at(c, a),
                forall |c: int| 0 <= c < i && pivot(*self, q, c) > 0real ==> #[trigger] q.at(c, c) > 0real,
        {
            let mut diagonal_entry_squared = self[(i, i)].clone();
            for j in 0..i
                invariant
                    self.wf(), q.wf(), q.dim == self.dim, i < self.dim,
                    diagonal_entry_squared.val() == self.at(i as int, i as int) - rdot(q, i as int, i as int, j as int),
            {
                diagonal_entry_squared -= &q[(i, j)].ref_mul(&q[(i, j)]);
            }

            let diagonal_entry = diagonal_entry_squared.sqrt();
            let ghost q0 = q;
            q[(i, i)] = diagonal_entry.clone();
            proof {
                let ii = i as int;
                assert(diagonal_entry_squared.val() == pivot(*self, q0, ii));
                lemma_rdot_frame(q0, q, ii, ii, ii);
                lemma_done_frame(*self, q0, q, ii, ii);
                assert forall |c: int| 0 <= c < i && pivot(*self, q, c) > 0real implies #[trigger] q.at(c, c) > 0real by {
                    lemma_rdot_frame(q0, q, c, c, c);
                    assert(q0.at(c, c) > 0real);
                }
                if pivot(*self, q, ii) > 0real {
                    let d = diagonal_entry.val();
                    assert(d * d == pivot(*self, q, ii));
                    assert(colprod(q, ii, ii) == rdot(q, ii, ii, ii) + q.at(ii, ii) * q.at(ii, ii));
                    assert(colprod(q, ii, ii) == self.at(ii, ii));
                    assert(d != 0real) by(nonlinear_arith) requires d * d > 0real;
                }
            }

            for j in i + 1..self.dim
                invariant
                    self.wf(), self.dim >= 1, sym(*self), q.wf(), q.dim == self.dim, i < self.dim,
                    forall |a: int, b: int| 0 <= a < self.dim && i < b < self.dim ==> #[trigger] q.at(a, b) == 0real,
                    forall |a: int, b: int| 0 <= a < b < self.dim ==> #[trigger] q.at(a, b) == 0real,
                    forall |c: int, a: int| 0 <= c < i && c <= a < self.dim && pivot(*self, q, c) > 0real ==> #[trigger] colprod(q, c, a) == self.at(c, a),
                    forall |c: int| 0 <= c <= i && pivot(*self, q, c) > 0real ==> #[trigger] q.at(c, c) > 0real,
                    q.at(i as int, i as int) == diagonal_entry.val(),
                    pivot(*self, q, i as int) > 0real ==> diagonal_entry.val() != 0real,
                    forall |a: int| i <= a < j && pivot(*self, q, i as int) > 0real ==> #[trigger] colprod(q, i as int, a) == self.at(i as int, a),
            {
                let mut entry = self[(i, j)].clone();
                for k in 0..i
                    invariant
                        self.wf(), q.wf(), q.dim == self.dim, i < j < self.dim,
                        entry.val() == self.at(i as int, j as int) - rdot(q, i as int, j as int, k as int),
                {
                    entry -= &q[(i, k)].ref_mul(&q[(j, k)]);
                }
                let ghost q1 = q;
                let ghost ev = entry.val();
                q[(j, i)] = ::core::ops::Div::div(entry, &diagonal_entry);
                proof {
                    let ii = i as int; let jj = j as int;
                    lemma_done_frame(*self, q1, q, ii, ii);
                    lemma_rdot_frame(q1, q, ii, ii, ii);
                    assert(pivot(*self, q, ii) == pivot(*self, q1, ii));
                    assert forall |c: int| 0 <= c <= i && pivot(*self, q, c) > 0real implies #[trigger] q.at(c, c) > 0real by {
                        lemma_rdot_frame(q1, q, c, c, c);
                        assert(q1.at(c, c) > 0real);
                    }
                    assert forall |a: int| i <= a < j + 1 && pivot(*self, q, ii) > 0real implies #[trigger] colprod(q, ii, a) == self.at(ii, a) by {
                        if a < j {
                            lemma_rdot_frame(q1, q, ii, a, ii + 1);
                            assert(colprod(q1, ii, a) == self.at(ii, a));
                        } else {
                            lemma_rdot_frame(q1, q, ii, jj, ii);
                            assert(colprod(q, ii, jj) == rdot(q, ii, jj, ii) + q.at(ii, ii) * q.at(jj, ii));
                            assert(q.at(jj, ii) * diagonal_entry.val() == ev);
                            assert(q.at(ii, ii) * q.at(jj, ii) == ev) by(nonlinear_arith)
                                requires q.at(jj, ii) * diagonal_entry.val() == ev, q.at(ii, ii) == diagonal_entry.val();
                        }
                    }
                }
            }
        }
        q
    }
}
proof fn lemma_flat(i: int, j: int, d: int)
    requires 0 <= i < d, 0 <= j < d
    ensures 0 <= i * d + j < d * d
{
    assert(i * d + j < d * d) by(nonlinear_arith) requires 0 <= i < d, 0 <= j < d;
    assert(0 <= i * d) by(nonlinear_arith) requires 0 <= i < d;
}
proof fn lemma_flat_inj(d: int)
    requires 0 < d
    ensures forall |a: int, b: int, a2: int, b2: int| 0 <= a < d && 0 <= b < d && 0 <= a2 < d && 0 <= b2 < d && #[trigger] (a * d + b) == #[trigger] (a2 * d + b2) ==> a == a2 && b == b2
{
    assert forall |a: int, b: int, a2: int, b2: int| 0 <= a < d && 0 <= b < d && 0 <= a2 < d && 0 <= b2 < d && #[trigger] (a * d + b) == #[trigger] (a2 * d + b2) implies a == a2 && b == b2 by {
        assert(a == a2) by(nonlinear_arith) requires 0 <= b < d, 0 <= b2 < d, a * d + b == a2 * d + b2, 0 < d;
    }
}
} // verus!
fn main() {}
