// Exact-arithmetic differential ("is it the same real number?").  NEVER in force in a normal run.  For properties whose statement
// is an identity up to a rounding tolerance (C07, C09, C10, C11), an operation-tree obligation that fails is re-verified with the
// scalar read as a real number: the field axioms of field.rs plus injectivity of `val`.  If it is then discharged, the edit
// computes the same real value by a different association / distribution of the same operations - a rounding-level change, which
// those properties allow - and is not reported as a violation (it is listed in the evidence).
pub broadcast axiom fn ax_val_inj(a: R, b: R) ensures #![trigger a.val(), b.val()] a.val() == b.val() ==> a == b;
pub broadcast group exact_arith_axioms { ax_val_inj }
