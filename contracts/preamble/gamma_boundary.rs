// C19: included ONLY by the unit that verifies src/gamma.rs.  Everywhere else `narrowing_allowed()` is unprovable,
// so any call of `to_f64()` outside the Gamma boundary is a failed precondition.
pub broadcast axiom fn ax_gamma_boundary() ensures #[trigger] narrowing_allowed();
