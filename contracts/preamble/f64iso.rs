// C19 differential ("what if T were f64?").  These axioms are FALSE for a general scalar type and are NEVER in force in a normal
// run: they are activated only when the driver re-verifies an obligation that already failed, to ask whether the code is right
// for T = f64 and wrong only for other scalar types - i.e. whether it takes a shortcut through f64 arithmetic or f64 constants.
// Under them `from_f64` / `to_f64` are mutually inverse and commute with every operation of the trait.
pub broadcast axiom fn iso_roundtrip_a(a: R) ensures #[trigger] from_f64_s(to_f64_s(a)) == a;
pub broadcast axiom fn iso_roundtrip_b(x: f64) ensures #[trigger] to_f64_s(from_f64_s(x)) == x;
pub broadcast axiom fn iso_add(a: f64, b: f64) ensures #[trigger] from_f64_s(f64_add_s(a, b)) == add_s(from_f64_s(a), from_f64_s(b));
pub broadcast axiom fn iso_sub(a: f64, b: f64) ensures #[trigger] from_f64_s(f64_sub_s(a, b)) == sub_s(from_f64_s(a), from_f64_s(b));
pub broadcast axiom fn iso_mul(a: f64, b: f64) ensures #[trigger] from_f64_s(f64_mul_s(a, b)) == mul_s(from_f64_s(a), from_f64_s(b));
pub broadcast axiom fn iso_div(a: f64, b: f64) ensures #[trigger] from_f64_s(f64_div_s(a, b)) == div_s(from_f64_s(a), from_f64_s(b));
pub broadcast axiom fn iso_neg(a: f64) ensures #[trigger] from_f64_s(f64_neg_s(a)) == neg_s(from_f64_s(a));
pub broadcast axiom fn iso_ln(a: f64) ensures #[trigger] from_f64_s(f64_ln_s(a)) == ln_s(from_f64_s(a));
pub broadcast axiom fn iso_exp(a: f64) ensures #[trigger] from_f64_s(f64_exp_s(a)) == exp_s(from_f64_s(a));
pub broadcast axiom fn iso_cos(a: f64) ensures #[trigger] from_f64_s(f64_cos_s(a)) == cos_s(from_f64_s(a));
pub broadcast axiom fn iso_sin(a: f64) ensures #[trigger] from_f64_s(f64_sin_s(a)) == sin_s(from_f64_s(a));
pub broadcast axiom fn iso_sqrt(a: f64) ensures #[trigger] from_f64_s(f64_sqrt_s(a)) == sqrt_s(from_f64_s(a));
pub broadcast axiom fn iso_abs(a: f64) ensures #[trigger] from_f64_s(f64_abs_s(a)) == abs_s(from_f64_s(a));
pub broadcast axiom fn iso_powf(a: f64, b: f64) ensures #[trigger] from_f64_s(f64_powf_s(a, b)) == powf_s(from_f64_s(a), from_f64_s(b));
pub broadcast axiom fn iso_recip(a: f64) ensures #[trigger] from_f64_s(f64_div_s(1.0f64, a)) == inv_s(from_f64_s(a));
pub broadcast axiom fn iso_inv(a: R) ensures #[trigger] inv_s(a) == div_s(one_s(), a);
pub broadcast axiom fn iso_int(n: int) ensures #[trigger] from_f64_s(f64_of_int(n)) == from_isize_s(n);
pub broadcast axiom fn iso_lits()
    ensures #[trigger] from_f64_s(0.0f64) == zero_s(), from_f64_s(1.0f64) == one_s(), from_f64_s(2.0f64) == from_isize_s(2),
        from_isize_s(0) == zero_s(), from_isize_s(1) == one_s(),
        from_f64_s(f64_pi_s()) == pi_s(),
        f64_consts_s("TAU"@) == f64_mul_s(2.0f64, f64_pi_s());
pub broadcast axiom fn iso_cmp(a: R, b: R)
    ensures #![trigger f64_ge_s(to_f64_s(a), to_f64_s(b))] #![trigger f64_le_s(to_f64_s(a), to_f64_s(b))] #![trigger f64_gt_s(to_f64_s(a), to_f64_s(b))] #![trigger f64_lt_s(to_f64_s(a), to_f64_s(b))] #![trigger f64_eq_s(to_f64_s(a), to_f64_s(b))]
        f64_ge_s(to_f64_s(a), to_f64_s(b)) == ge_s(a, b), f64_le_s(to_f64_s(a), to_f64_s(b)) == le_s(a, b),
        f64_gt_s(to_f64_s(a), to_f64_s(b)) == gt_s(a, b), f64_lt_s(to_f64_s(a), to_f64_s(b)) == lt_s(a, b),
        f64_eq_s(to_f64_s(a), to_f64_s(b)) == eq_s(a, b);
pub broadcast group f64_iso_axioms {
    iso_roundtrip_a, iso_roundtrip_b, iso_add, iso_sub, iso_mul, iso_div, iso_neg, iso_ln, iso_exp, iso_cos, iso_sin, iso_sqrt, iso_abs,
    iso_powf, iso_recip, iso_inv, iso_int, iso_lits, iso_cmp,
}
