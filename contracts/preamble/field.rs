// Layer F — ordered-field reading of the scalar (assumption A-REAL: machine arithmetic treated as mathematical).
// A view `val: R -> real` and one axiom per operation symbol.  Only units that `broadcast use field_axioms`
// depend on it; what they prove holds for exact arithmetic and for f64 "up to rounding" (tolerances are not decided).
impl R {
    pub uninterp spec fn val(&self) -> real;
}
pub broadcast axiom fn ax_zero() ensures #[trigger] zero_s().val() == 0real;
pub broadcast axiom fn ax_one() ensures #[trigger] one_s().val() == 1real;
pub broadcast axiom fn ax_from_isize(n: int) ensures (#[trigger] from_isize_s(n)).val() == n as real;
pub broadcast axiom fn ax_add(a: R, b: R) ensures (#[trigger] add_s(a, b)).val() == a.val() + b.val();
pub broadcast axiom fn ax_sub(a: R, b: R) ensures (#[trigger] sub_s(a, b)).val() == a.val() - b.val();
pub broadcast axiom fn ax_mul(a: R, b: R) ensures (#[trigger] mul_s(a, b)).val() == a.val() * b.val();
pub broadcast axiom fn ax_neg(a: R) ensures (#[trigger] neg_s(a)).val() == -a.val();
pub broadcast axiom fn ax_div(a: R, b: R) ensures b.val() != 0real ==> (#[trigger] div_s(a, b)).val() * b.val() == a.val();
pub broadcast axiom fn ax_inv(a: R) ensures a.val() != 0real ==> (#[trigger] inv_s(a)).val() * a.val() == 1real;
pub broadcast axiom fn ax_sqrt(a: R) ensures a.val() >= 0real ==> (#[trigger] sqrt_s(a)).val() >= 0real && sqrt_s(a).val() * sqrt_s(a).val() == a.val();
pub broadcast axiom fn ax_eq(a: R, b: R) ensures #[trigger] eq_s(a, b) == (a.val() == b.val());
pub broadcast axiom fn ax_lt(a: R, b: R) ensures #[trigger] lt_s(a, b) == (a.val() < b.val());
pub broadcast axiom fn ax_le(a: R, b: R) ensures #[trigger] le_s(a, b) == (a.val() <= b.val());
pub broadcast axiom fn ax_gt(a: R, b: R) ensures #[trigger] gt_s(a, b) == (a.val() > b.val());
pub broadcast axiom fn ax_ge(a: R, b: R) ensures #[trigger] ge_s(a, b) == (a.val() >= b.val());
// arithmetic only: says nothing about the comparison symbols, so contracts that mention eq_s / le_s / ... stay NaN-faithful
pub broadcast group field_axioms {
    ax_zero, ax_one, ax_from_isize, ax_add, ax_sub, ax_mul, ax_neg, ax_div, ax_inv, ax_sqrt,
}
// comparisons decide the order on `val` (total order: excludes NaN) — used only where a clause says so
pub broadcast group order_axioms {
    ax_eq, ax_lt, ax_le, ax_gt, ax_ge,
}
