// Layer P — power laws on positive reals (assumption A-POW) and the real reading of the f64 exponent arithmetic (A-F64-REAL).
// Used ONLY by the unit `normal` (normalisation clause of C07 / C11).  Every law is an explicit lemma call, none is broadcast.
pub uninterp spec fn powr(a: real, b: real) -> real;
pub uninterp spec fn fval(x: f64) -> real;
pub axiom fn ax_powf(a: R, b: R) requires a.val() > 0real ensures powf_s(a, b).val() == powr(a.val(), b.val());
pub axiom fn ax_powr_pos(a: real, b: real) requires a > 0real ensures powr(a, b) > 0real;
pub axiom fn ax_powr_mul_base(a: real, b: real, c: real) requires a > 0real, b > 0real ensures powr(a * b, c) == powr(a, c) * powr(b, c);
pub axiom fn ax_powr_add_exp(a: real, b: real, c: real) requires a > 0real ensures powr(a, b) * powr(a, c) == powr(a, b + c);
pub axiom fn ax_powr_pow(a: real, b: real, c: real) requires a > 0real ensures powr(powr(a, b), c) == powr(a, b * c);
pub axiom fn ax_powr_one(a: real) requires a > 0real ensures powr(a, 1real) == a, powr(a, 0real) == 1real;
pub axiom fn ax_from_f64(v: f64) ensures from_f64_s(v).val() == fval(v);
pub axiom fn ax_fval_add(a: f64, b: f64) ensures fval(f64_add_s(a, b)) == fval(a) + fval(b);
pub axiom fn ax_fval_mul(a: f64, b: f64) ensures fval(f64_mul_s(a, b)) == fval(a) * fval(b);
pub axiom fn ax_fval_neg(a: f64) ensures fval(f64_neg_s(a)) == -fval(a);
pub axiom fn ax_fval_div(a: f64, b: f64) requires fval(b) != 0real ensures fval(f64_div_s(a, b)) * fval(b) == fval(a);
pub axiom fn ax_fval_int(n: int) ensures fval(f64_of_int(n)) == n as real;
pub axiom fn ax_fval_two() ensures fval(2.0f64) == 2real;
