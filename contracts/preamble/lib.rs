// Library layer — stand-ins for std / dependency functions that the extraction rules refer to.
// Each item is an assumed contract (A-LIB-*) or an opaque sink; all are listed in contracts/TRUSTED.toml.

// R5: debug output.  The call is kept; it receives only a shared reference, so Verus' ownership checking
// proves that printing cannot change any value used afterwards (C17).  Body: no-op.
#[verifier::external_body]
pub fn verif_debug_sink<A: ?Sized>(a: &A) { }

// R6: panics keep their position; reaching one is a failed obligation (precondition `false`).
#[verifier::external_body]
pub fn verif_panic() -> ! requires false { panic!() }

#[verifier::external_body]
pub fn verif_opaque_string() -> String { String::new() }

// R3 (assumption A-SV): SmallVec::from_elem(x, n) behaves as vec![x; n]
#[verifier::external_body]
pub fn vec_from_elem<A: Clone>(elem: A, n: usize) -> (v: Vec<A>)
    ensures v.len() == n, forall |i: int| 0 <= i < n ==> #[trigger] v[i] == elem
{ vec![elem; n] }

// R7 (assumption A-F64): f64 arithmetic as uninterpreted functions of the operands
pub uninterp spec fn f64_add_s(a: f64, b: f64) -> f64;
pub uninterp spec fn f64_sub_s(a: f64, b: f64) -> f64;
pub uninterp spec fn f64_mul_s(a: f64, b: f64) -> f64;
pub uninterp spec fn f64_div_s(a: f64, b: f64) -> f64;
pub uninterp spec fn f64_neg_s(a: f64) -> f64;
pub uninterp spec fn f64_of_int(n: int) -> f64;
pub uninterp spec fn f64_lt_s(a: f64, b: f64) -> bool;
pub uninterp spec fn f64_le_s(a: f64, b: f64) -> bool;
pub uninterp spec fn f64_gt_s(a: f64, b: f64) -> bool;
pub uninterp spec fn f64_ge_s(a: f64, b: f64) -> bool;
pub uninterp spec fn f64_eq_s(a: f64, b: f64) -> bool;
#[verifier::external_body] pub fn f64_add(a: f64, b: f64) -> (r: f64) ensures r == f64_add_s(a, b) { a + b }
#[verifier::external_body] pub fn f64_sub(a: f64, b: f64) -> (r: f64) ensures r == f64_sub_s(a, b) { a - b }
#[verifier::external_body] pub fn f64_mul(a: f64, b: f64) -> (r: f64) ensures r == f64_mul_s(a, b) { a * b }
#[verifier::external_body] pub fn f64_div(a: f64, b: f64) -> (r: f64) ensures r == f64_div_s(a, b) { a / b }
#[verifier::external_body] pub fn f64_neg(a: f64) -> (r: f64) ensures r == f64_neg_s(a) { -a }
#[verifier::external_body] pub fn f64_lt(a: f64, b: f64) -> (r: bool) ensures r == f64_lt_s(a, b) { a < b }
#[verifier::external_body] pub fn f64_le(a: f64, b: f64) -> (r: bool) ensures r == f64_le_s(a, b) { a <= b }
#[verifier::external_body] pub fn f64_gt(a: f64, b: f64) -> (r: bool) ensures r == f64_gt_s(a, b) { a > b }
#[verifier::external_body] pub fn f64_ge(a: f64, b: f64) -> (r: bool) ensures r == f64_ge_s(a, b) { a >= b }
#[verifier::external_body] pub fn f64_eq(a: f64, b: f64) -> (r: bool) ensures r == f64_eq_s(a, b) { a == b }
#[verifier::external_body] pub fn f64_ne(a: f64, b: f64) -> (r: bool) ensures r == !f64_eq_s(a, b) { a != b }
pub trait VerifAsF64 { fn verif_as_f64(self) -> f64; }
impl VerifAsF64 for usize { #[verifier::external_body] fn verif_as_f64(self) -> (r: f64) ensures r == f64_of_int(self as int) { self as f64 } }
impl VerifAsF64 for u8 { #[verifier::external_body] fn verif_as_f64(self) -> (r: f64) ensures r == f64_of_int(self as int) { self as f64 } }
impl VerifAsF64 for isize { #[verifier::external_body] fn verif_as_f64(self) -> (r: f64) ensures r == f64_of_int(self as int) { self as f64 } }
