// Library layer — stand-ins for std / dependency functions that the extraction rules refer to.
// Each item is an assumed contract (A-LIB-*) or an opaque sink; all are listed in contracts/TRUSTED.toml.

// R5: debug output.  The call is kept; it receives only a shared reference, so Verus' ownership checking
// proves that printing cannot change any value used afterwards (C17).  Body: no-op.
#[verifier::external_body]
pub fn verif_debug_sink<A: ?Sized>(a: &A) { }

// R6: panics keep their position; reaching one is a failed obligation (precondition `false`).
/// R6: `assert!(c, ...)` -> `verif_assert(c)`: a failing assert! is a panic, so `c` is an obligation at the call site
pub fn verif_assert(c: bool) requires c { }
#[verifier::external_body]
pub fn verif_panic() -> ! requires false { panic!() }

#[verifier::external_body]
pub fn verif_opaque_string() -> String { String::new() }

// R3 (assumption A-SV): SmallVec::from_elem(x, n) behaves as vec![x; n]
#[verifier::external_body]
pub fn vec_from_elem<A: Clone>(elem: A, n: usize) -> (v: Vec<A>)
    ensures v.len() == n, forall |i: int| 0 <= i < n ==> #[trigger] v[i] == elem
{ vec![elem; n] }

// R7 (assumption A-F64): f64 arithmetic as uninterpreted functions of the operands
pub uninterp spec fn f64_add_s(a: f64, b: f64) -> f64;
pub uninterp spec fn f64_sub_s(a: f64, b: f64) -> f64;
pub uninterp spec fn f64_mul_s(a: f64, b: f64) -> f64;
pub uninterp spec fn f64_div_s(a: f64, b: f64) -> f64;
pub uninterp spec fn f64_neg_s(a: f64) -> f64;
pub uninterp spec fn f64_of_int(n: int) -> f64;
pub uninterp spec fn f64_lt_s(a: f64, b: f64) -> bool;
pub uninterp spec fn f64_le_s(a: f64, b: f64) -> bool;
pub uninterp spec fn f64_gt_s(a: f64, b: f64) -> bool;
pub uninterp spec fn f64_ge_s(a: f64, b: f64) -> bool;
pub uninterp spec fn f64_eq_s(a: f64, b: f64) -> bool;
// The same laws for the f64 operations themselves (IEEE 754 addition and multiplication are commutative bit for bit, NaN payloads
// aside; `a > b` is `b < a`): `dod + x` for `x + dod` in an exponent computed in f64 must not alarm.
pub broadcast axiom fn ax_f64_add_comm(a: f64, b: f64) ensures #[trigger] f64_add_s(a, b) == f64_add_s(b, a);
pub broadcast axiom fn ax_f64_mul_comm(a: f64, b: f64) ensures #[trigger] f64_mul_s(a, b) == f64_mul_s(b, a);
pub broadcast axiom fn ax_f64_gt_dual(a: f64, b: f64) ensures #[trigger] f64_gt_s(a, b) == f64_lt_s(b, a);
pub broadcast axiom fn ax_f64_ge_dual(a: f64, b: f64) ensures #[trigger] f64_ge_s(a, b) == f64_le_s(b, a);
pub broadcast axiom fn ax_f64_eq_sym(a: f64, b: f64) ensures #[trigger] f64_eq_s(a, b) == f64_eq_s(b, a);
pub broadcast group scalar_laws { ax_add_comm, ax_mul_comm, ax_gt_dual, ax_ge_dual, ax_eq_sym, ax_f64_add_comm, ax_f64_mul_comm, ax_f64_gt_dual, ax_f64_ge_dual, ax_f64_eq_sym }
/// an f64 operand passed by value or by reference (`1.0 / self` with self: &f64 uses `Div<&f64> for f64`)
pub trait F64Arg: Sized { spec fn f64v(self) -> f64; }
impl F64Arg for f64 { open spec fn f64v(self) -> f64 { self } }
impl<'a> F64Arg for &'a f64 { open spec fn f64v(self) -> f64 { *self } }
#[verifier::external_body] pub fn f64_add<A: F64Arg, B: F64Arg>(a: A, b: B) -> (r: f64) ensures r == f64_add_s(a.f64v(), b.f64v()) { unimplemented!() }
#[verifier::external_body] pub fn f64_sub<A: F64Arg, B: F64Arg>(a: A, b: B) -> (r: f64) ensures r == f64_sub_s(a.f64v(), b.f64v()) { unimplemented!() }
#[verifier::external_body] pub fn f64_mul<A: F64Arg, B: F64Arg>(a: A, b: B) -> (r: f64) ensures r == f64_mul_s(a.f64v(), b.f64v()) { unimplemented!() }
#[verifier::external_body] pub fn f64_div<A: F64Arg, B: F64Arg>(a: A, b: B) -> (r: f64) ensures r == f64_div_s(a.f64v(), b.f64v()) { unimplemented!() }
#[verifier::external_body] pub fn f64_neg<A: F64Arg>(a: A) -> (r: f64) ensures r == f64_neg_s(a.f64v()) { unimplemented!() }
#[verifier::external_body] pub fn f64_lt<A: F64Arg, B: F64Arg>(a: A, b: B) -> (r: bool) ensures r == f64_lt_s(a.f64v(), b.f64v()) { unimplemented!() }
#[verifier::external_body] pub fn f64_le<A: F64Arg, B: F64Arg>(a: A, b: B) -> (r: bool) ensures r == f64_le_s(a.f64v(), b.f64v()) { unimplemented!() }
#[verifier::external_body] pub fn f64_gt<A: F64Arg, B: F64Arg>(a: A, b: B) -> (r: bool) ensures r == f64_gt_s(a.f64v(), b.f64v()) { unimplemented!() }
#[verifier::external_body] pub fn f64_ge<A: F64Arg, B: F64Arg>(a: A, b: B) -> (r: bool) ensures r == f64_ge_s(a.f64v(), b.f64v()) { unimplemented!() }
#[verifier::external_body] pub fn f64_eq<A: F64Arg, B: F64Arg>(a: A, b: B) -> (r: bool) ensures r == f64_eq_s(a.f64v(), b.f64v()) { unimplemented!() }
#[verifier::external_body] pub fn f64_ne<A: F64Arg, B: F64Arg>(a: A, b: B) -> (r: bool) ensures r == !f64_eq_s(a.f64v(), b.f64v()) { unimplemented!() }
pub trait VerifAsF64 { fn verif_as_f64(self) -> f64; }
impl VerifAsF64 for usize { #[verifier::external_body] fn verif_as_f64(self) -> (r: f64) ensures r == f64_of_int(self as int) { self as f64 } }
impl VerifAsF64 for u8 { #[verifier::external_body] fn verif_as_f64(self) -> (r: f64) ensures r == f64_of_int(self as int) { self as f64 } }
impl VerifAsF64 for u16 { #[verifier::external_body] fn verif_as_f64(self) -> (r: f64) ensures r == f64_of_int(self as int) { self as f64 } }
impl VerifAsF64 for u32 { #[verifier::external_body] fn verif_as_f64(self) -> (r: f64) ensures r == f64_of_int(self as int) { self as f64 } }
impl VerifAsF64 for u64 { #[verifier::external_body] fn verif_as_f64(self) -> (r: f64) ensures r == f64_of_int(self as int) { self as f64 } }
impl VerifAsF64 for i8 { #[verifier::external_body] fn verif_as_f64(self) -> (r: f64) ensures r == f64_of_int(self as int) { self as f64 } }
impl VerifAsF64 for i16 { #[verifier::external_body] fn verif_as_f64(self) -> (r: f64) ensures r == f64_of_int(self as int) { self as f64 } }
impl VerifAsF64 for i32 { #[verifier::external_body] fn verif_as_f64(self) -> (r: f64) ensures r == f64_of_int(self as int) { self as f64 } }
impl VerifAsF64 for i64 { #[verifier::external_body] fn verif_as_f64(self) -> (r: f64) ensures r == f64_of_int(self as int) { self as f64 } }
impl VerifAsF64 for isize { #[verifier::external_body] fn verif_as_f64(self) -> (r: f64) ensures r == f64_of_int(self as int) { self as f64 } }

// R13 (assumptions A-LIB-ITER): provided `Iterator` methods cannot be given a specification in Verus, so the
// extractor routes `recv.m(args)` through a wrapper whose body is exactly `recv.m(args)`.  Each contract below is
// the definition of the adapter in `core::iter`, stated over vstd's `remaining()` view of an iterator.
use vstd::std_specs::iter::IteratorSpec;

#[verifier::external_type_specification]
#[verifier::external_body]
#[verifier::reject_recursive_types(I)]
pub struct ExEnumerate<I>(::core::iter::Enumerate<I>);

#[verifier::external_body]
pub fn verif_enumerate<I: Iterator>(it: I) -> (r: ::core::iter::Enumerate<I>)
    ensures r.remaining() == Seq::new(it.remaining().len(), |k: int| (k as usize, it.remaining()[k]))
{ it.enumerate() }

#[verifier::external_body]
pub fn verif_zip<I: Iterator, J: Iterator>(a: I, b: J) -> (r: ::core::iter::Zip<I, J>)
    ensures r.remaining() == Seq::new(if a.remaining().len() <= b.remaining().len() { a.remaining().len() } else { b.remaining().len() }, |k: int| (a.remaining()[k], b.remaining()[k]))
{ a.zip(b) }

/// `it.fold(init, f)` in invariant form: `inv(k, acc)` holds of the accumulator before item k is consumed.
#[verifier::external_body]
pub fn verif_fold<I: Iterator, B, F: FnMut(B, I::Item) -> B>(it: I, init: B, f: F, Ghost(inv): Ghost<spec_fn(int, B) -> bool>) -> (r: B)
    requires
        inv(0, init),
        forall |k: int, a: B| 0 <= k < it.remaining().len() && inv(k, a) ==> #[trigger] f.requires((a, it.remaining()[k])),
        forall |k: int, a: B, o: B| 0 <= k < it.remaining().len() && inv(k, a) && #[trigger] f.ensures((a, it.remaining()[k]), o) ==> inv(k + 1, o),
    ensures
        inv(it.remaining().len() as int, r),
{ it.fold(init, f) }

/// `it.map(f).collect::<Vec<_>>()` (= itertools `collect_vec`) for a closure without mutable state
#[verifier::external_body]
pub fn verif_map_collect<I: Iterator, U, F: FnMut(I::Item) -> U>(it: I, f: F) -> (r: Vec<U>)
    requires forall |k: int| 0 <= k < it.remaining().len() ==> #[trigger] f.requires((it.remaining()[k],)),
    ensures r.len() == it.remaining().len(),
        forall |k: int| 0 <= k < it.remaining().len() ==> f.ensures((it.remaining()[k],), #[trigger] r[k]),
{ it.map(f).collect() }

/// `it.map(f).unzip()` into two Vecs
#[verifier::external_body]
pub fn verif_map_unzip<I: Iterator, U, V, F: FnMut(I::Item) -> (U, V)>(it: I, f: F) -> (r: (Vec<U>, Vec<V>))
    requires forall |k: int| 0 <= k < it.remaining().len() ==> #[trigger] f.requires((it.remaining()[k],)),
    ensures r.0.len() == it.remaining().len(), r.1.len() == it.remaining().len(),
        forall |k: int| #![trigger r.0[k]] #![trigger r.1[k]] 0 <= k < it.remaining().len() ==> f.ensures((it.remaining()[k],), (r.0[k], r.1[k])),
{ it.map(f).unzip() }

// A-LIB-ARRAY: definitional contracts of the array constructors used by src/vector.rs
pub assume_specification<T, const N: usize, F: FnMut(usize) -> T>[ ::core::array::from_fn ](f: F) -> (r: [T; N])
    requires forall |i: usize| i < N ==> #[trigger] f.requires((i,)),
    ensures forall |i: usize| i < N ==> f.ensures((i,), #[trigger] r[i as int]),
;
pub assume_specification<T, const N: usize>[ <[T; N]>::each_ref ](a: &[T; N]) -> (r: [&T; N])
    ensures forall |i: int| 0 <= i < N ==> *#[trigger] r[i] == a[i],
;
pub assume_specification<T, const N: usize, F: FnMut(T) -> U, U>[ <[T; N]>::map ](a: [T; N], f: F) -> (r: [U; N])
    requires forall |i: int| 0 <= i < N ==> f.requires((#[trigger] a[i],)),
    ensures forall |i: int| 0 <= i < N ==> f.ensures((a[i],), #[trigger] r[i]),
;

// A-F64-STD: the f64 library functions named by `impl MomTropFloat for f64` (src/float.rs:68-124), as uninterpreted symbols
pub uninterp spec fn f64_ln_s(a: f64) -> f64;
pub uninterp spec fn f64_exp_s(a: f64) -> f64;
pub uninterp spec fn f64_cos_s(a: f64) -> f64;
pub uninterp spec fn f64_sin_s(a: f64) -> f64;
pub uninterp spec fn f64_sqrt_s(a: f64) -> f64;
pub uninterp spec fn f64_abs_s(a: f64) -> f64;
pub uninterp spec fn f64_powf_s(a: f64, b: f64) -> f64;
pub uninterp spec fn f64_is_nan_s(a: f64) -> bool;
pub uninterp spec fn f64_is_finite_s(a: f64) -> bool;
pub assume_specification [f64::ln](x: f64) -> (r: f64) ensures r == f64_ln_s(x);
pub assume_specification [f64::exp](x: f64) -> (r: f64) ensures r == f64_exp_s(x);
pub assume_specification [f64::cos](x: f64) -> (r: f64) ensures r == f64_cos_s(x);
pub assume_specification [f64::sin](x: f64) -> (r: f64) ensures r == f64_sin_s(x);
pub assume_specification [f64::sqrt](x: f64) -> (r: f64) ensures r == f64_sqrt_s(x);
pub assume_specification [f64::abs](x: f64) -> (r: f64) ensures r == f64_abs_s(x);
pub assume_specification [f64::powf](x: f64, p: f64) -> (r: f64) ensures r == f64_powf_s(x, p);
pub assume_specification [f64::is_nan](x: f64) -> (r: bool) ensures r == f64_is_nan_s(x);
pub assume_specification [f64::is_finite](x: f64) -> (r: bool) ensures r == f64_is_finite_s(x);
// further f64 library functions a change may introduce (A-F64-STD): uninterpreted symbols of their operands
pub uninterp spec fn f64_fract_s(a: f64) -> f64;
pub uninterp spec fn f64_floor_s(a: f64) -> f64;
pub uninterp spec fn f64_ceil_s(a: f64) -> f64;
pub uninterp spec fn f64_round_s(a: f64) -> f64;
pub uninterp spec fn f64_trunc_s(a: f64) -> f64;
pub uninterp spec fn f64_recip_s(a: f64) -> f64;
pub uninterp spec fn f64_signum_s(a: f64) -> f64;
pub uninterp spec fn f64_tan_s(a: f64) -> f64;
pub uninterp spec fn f64_powi_s(a: f64, n: i32) -> f64;
pub uninterp spec fn f64_max_s(a: f64, b: f64) -> f64;
pub uninterp spec fn f64_min_s(a: f64, b: f64) -> f64;
pub uninterp spec fn f64_mul_add_s(a: f64, b: f64, c: f64) -> f64;
pub uninterp spec fn f64_is_infinite_s(a: f64) -> bool;
pub uninterp spec fn f64_is_sign_negative_s(a: f64) -> bool;
pub uninterp spec fn f64_is_sign_positive_s(a: f64) -> bool;
pub assume_specification [f64::fract](x: f64) -> (r: f64) ensures r == f64_fract_s(x);
pub assume_specification [f64::floor](x: f64) -> (r: f64) ensures r == f64_floor_s(x);
pub assume_specification [f64::ceil](x: f64) -> (r: f64) ensures r == f64_ceil_s(x);
pub assume_specification [f64::round](x: f64) -> (r: f64) ensures r == f64_round_s(x);
pub assume_specification [f64::trunc](x: f64) -> (r: f64) ensures r == f64_trunc_s(x);
pub assume_specification [f64::recip](x: f64) -> (r: f64) ensures r == f64_div_s(1.0f64, x); // std: `1.0 / self`
pub assume_specification [f64::signum](x: f64) -> (r: f64) ensures r == f64_signum_s(x);
pub assume_specification [f64::tan](x: f64) -> (r: f64) ensures r == f64_tan_s(x);
pub assume_specification [f64::powi](x: f64, n: i32) -> (r: f64) ensures r == f64_powi_s(x, n);
pub assume_specification [f64::max](x: f64, y: f64) -> (r: f64) ensures r == f64_max_s(x, y);
pub assume_specification [f64::min](x: f64, y: f64) -> (r: f64) ensures r == f64_min_s(x, y);
pub assume_specification [f64::mul_add](x: f64, y: f64, z: f64) -> (r: f64) ensures r == f64_mul_add_s(x, y, z);
pub assume_specification [f64::is_infinite](x: f64) -> (r: bool) ensures r == f64_is_infinite_s(x);
pub assume_specification [f64::is_sign_negative](x: f64) -> (r: bool) ensures r == f64_is_sign_negative_s(x);
pub assume_specification [f64::is_sign_positive](x: f64) -> (r: bool) ensures r == f64_is_sign_positive_s(x);
// R7: `x as <int>` with x: f64 (saturating float-to-int conversion): an uninterpreted function of x
pub uninterp spec fn f64_as_i32_s(a: f64) -> i32;
#[verifier::external_body] pub fn f64_as_i32<A: F64Arg>(a: A) -> (r: i32) ensures r == f64_as_i32_s(a.f64v()) { unimplemented!() }
pub uninterp spec fn f64_as_i64_s(a: f64) -> i64;
#[verifier::external_body] pub fn f64_as_i64<A: F64Arg>(a: A) -> (r: i64) ensures r == f64_as_i64_s(a.f64v()) { unimplemented!() }
pub uninterp spec fn f64_as_isize_s(a: f64) -> isize;
#[verifier::external_body] pub fn f64_as_isize<A: F64Arg>(a: A) -> (r: isize) ensures r == f64_as_isize_s(a.f64v()) { unimplemented!() }
pub uninterp spec fn f64_as_usize_s(a: f64) -> usize;
#[verifier::external_body] pub fn f64_as_usize<A: F64Arg>(a: A) -> (r: usize) ensures r == f64_as_usize_s(a.f64v()) { unimplemented!() }
pub uninterp spec fn f64_as_u32_s(a: f64) -> u32;
#[verifier::external_body] pub fn f64_as_u32<A: F64Arg>(a: A) -> (r: u32) ensures r == f64_as_u32_s(a.f64v()) { unimplemented!() }
pub uninterp spec fn f64_as_u64_s(a: f64) -> u64;
#[verifier::external_body] pub fn f64_as_u64<A: F64Arg>(a: A) -> (r: u64) ensures r == f64_as_u64_s(a.f64v()) { unimplemented!() }
pub uninterp spec fn f64_as_u8_s(a: f64) -> u8;
#[verifier::external_body] pub fn f64_as_u8<A: F64Arg>(a: A) -> (r: u8) ensures r == f64_as_u8_s(a.f64v()) { unimplemented!() }
pub uninterp spec fn f64_as_i8_s(a: f64) -> i8;
#[verifier::external_body] pub fn f64_as_i8<A: F64Arg>(a: A) -> (r: i8) ensures r == f64_as_i8_s(a.f64v()) { unimplemented!() }
pub uninterp spec fn f64_as_u16_s(a: f64) -> u16;
#[verifier::external_body] pub fn f64_as_u16<A: F64Arg>(a: A) -> (r: u16) ensures r == f64_as_u16_s(a.f64v()) { unimplemented!() }
pub uninterp spec fn f64_as_i16_s(a: f64) -> i16;
#[verifier::external_body] pub fn f64_as_i16<A: F64Arg>(a: A) -> (r: i16) ensures r == f64_as_i16_s(a.f64v()) { unimplemented!() }
pub uninterp spec fn f64_pi_s() -> f64;
#[verifier::external_body] pub fn f64_const_pi() -> (r: f64) ensures r == f64_pi_s() { ::core::f64::consts::PI }

/// `it.map(f).fold(init, g)` in invariant form (both closures without mutable state)
#[verifier::external_body]
pub fn verif_map_fold<I: Iterator, M, B, F: FnMut(I::Item) -> M, G: FnMut(B, M) -> B>(it: I, f: F, init: B, g: G, Ghost(inv): Ghost<spec_fn(int, B) -> bool>) -> (r: B)
    requires
        inv(0, init),
        forall |k: int| 0 <= k < it.remaining().len() ==> #[trigger] f.requires((it.remaining()[k],)),
        forall |k: int, a: B, m: M| 0 <= k < it.remaining().len() && inv(k, a) && #[trigger] f.ensures((it.remaining()[k],), m) ==> #[trigger] g.requires((a, m)),
        forall |k: int, a: B, m: M, o: B| 0 <= k < it.remaining().len() && inv(k, a) && #[trigger] f.ensures((it.remaining()[k],), m) && #[trigger] g.ensures((a, m), o) ==> inv(k + 1, o),
    ensures
        inv(it.remaining().len() as int, r),
{ it.map(f).fold(init, g) }

/// itertools::izip!(a, b, c) on three slices: a.iter().zip(b).zip(c).map(|((a, b), c)| (a, b, c))  (documented expansion)
#[verifier::external_body]
pub fn izip3<'a, A, B, C>(a: &'a [A], b: &'a [B], c: &'a [C]) -> (r: impl Iterator<Item = (&'a A, &'a B, &'a C)>)
    ensures r.obeys_prophetic_iter_laws(),
        r.remaining().len() == (if a.len() <= b.len() { if a.len() <= c.len() { a.len() } else { c.len() } } else { if b.len() <= c.len() { b.len() } else { c.len() } }),
        forall |k: int| 0 <= k < r.remaining().len() ==> *(#[trigger] r.remaining()[k]).0 == a[k] && *r.remaining()[k].1 == b[k] && *r.remaining()[k].2 == c[k],
{ a.iter().zip(b.iter()).zip(c.iter()).map(|((a, b), c)| (a, b, c)) }

/// `it.filter(f)` for a predicate closure without mutable state; `pred` is the specification-level predicate it computes
#[verifier::external_body]
pub fn verif_filter<I: Iterator, F: FnMut(&I::Item) -> bool>(it: I, f: F, Ghost(pred): Ghost<spec_fn(I::Item) -> bool>) -> (r: ::core::iter::Filter<I, F>)
    requires
        it.obeys_prophetic_iter_laws(),
        forall |k: int| 0 <= k < it.remaining().len() ==> #[trigger] f.requires((&it.remaining()[k],)),
        forall |k: int, b: bool| 0 <= k < it.remaining().len() && #[trigger] f.ensures((&it.remaining()[k],), b) ==> b == pred(it.remaining()[k]),
    ensures r.obeys_prophetic_iter_laws(), r.remaining() == it.remaining().filter(pred),
{ it.filter(f) }

/// `it.collect::<Vec<_>>()` (= itertools `collect_vec`)
#[verifier::external_body]
pub fn verif_collect<I: Iterator>(it: I) -> (r: Vec<I::Item>)
    ensures r@ == it.remaining()
{ it.collect() }

// A-LIB-RESULT: definitional contracts of Result combinators not covered by vstd
pub assume_specification<T, E, F: FnOnce(E) -> T>[ ::core::result::Result::<T, E>::unwrap_or_else ](r: Result<T, E>, f: F) -> (o: T)
    requires r is Err ==> f.requires((r->Err_0,)),
    ensures r is Ok ==> o == r->Ok_0, r is Err ==> f.ensures((r->Err_0,), o),
;
// R7: the remaining constants of core::f64::consts, by name: an uninterpreted value per name
pub uninterp spec fn f64_consts_s(name: Seq<char>) -> f64;
#[verifier::external_body] pub fn f64_const_named(name: &'static str) -> (r: f64) ensures r == f64_consts_s(name@) { unimplemented!() }
// f64::clamp: an uninterpreted function of its three operands (A-F64-STD)
pub uninterp spec fn f64_clamp_s(x: f64, lo: f64, hi: f64) -> f64;
pub assume_specification [f64::clamp](x: f64, lo: f64, hi: f64) -> (r: f64) ensures r == f64_clamp_s(x, lo, hi);
// R7: external f64 constants read through opaque functions (uninterpreted values)
pub uninterp spec fn f64_named_const_s(name: int) -> f64;
#[verifier::external_body] pub fn f64_const_epsilon() -> (r: f64) ensures r == f64_named_const_s(1) { f64::EPSILON }
#[verifier::external_body] pub fn f64_const_max() -> (r: f64) ensures r == f64_named_const_s(2) { f64::MAX }
#[verifier::external_body] pub fn f64_const_min() -> (r: f64) ensures r == f64_named_const_s(3) { f64::MIN }
#[verifier::external_body] pub fn f64_const_min_positive() -> (r: f64) ensures r == f64_named_const_s(4) { f64::MIN_POSITIVE }
#[verifier::external_body] pub fn f64_const_infinity() -> (r: f64) ensures r == f64_named_const_s(5) { f64::INFINITY }
#[verifier::external_body] pub fn f64_const_neg_infinity() -> (r: f64) ensures r == f64_named_const_s(6) { f64::NEG_INFINITY }
#[verifier::external_body] pub fn f64_const_nan() -> (r: f64) ensures r == f64_named_const_s(7) { f64::NAN }

/// `it.map(f)` for a closure without mutable state: item k of the result satisfies f's contract on item k
#[verifier::external_body]
pub fn verif_map<I: Iterator, U, F: FnMut(I::Item) -> U>(it: I, f: F) -> (r: ::core::iter::Map<I, F>)
    requires it.obeys_prophetic_iter_laws(), forall |k: int| 0 <= k < it.remaining().len() ==> #[trigger] f.requires((it.remaining()[k],)),
    ensures r.obeys_prophetic_iter_laws(), r.remaining().len() == it.remaining().len(),
        forall |k: int| 0 <= k < it.remaining().len() ==> f.ensures((it.remaining()[k],), #[trigger] r.remaining()[k]),
{ it.map(f) }
/// R16: the additive identity from which `Sum<f64>` folds (0.0 or -0.0 depending on the std version): an uninterpreted constant
pub uninterp spec fn f64_sum_init_s() -> f64;
#[verifier::external_body] pub fn f64_sum_init() -> (r: f64) ensures r == f64_sum_init_s() { ::core::iter::empty::<f64>().sum() }
/// `Sum<f64>`: the left fold with `+` from the additive identity (the definition in core::iter::traits::accum)
pub open spec fn f64_fold_sum_s(v: Seq<f64>) -> f64
    decreases v.len()
{
    if v.len() == 0 { f64_sum_init_s() } else { f64_add_s(f64_fold_sum_s(v.drop_last()), v.last()) }
}
/// `it.map(f).sum::<f64>()` for a closure without mutable state (A-LIB-ITER)
#[verifier::external_body]
pub fn verif_map_sum<I: Iterator, F: FnMut(I::Item) -> f64>(it: I, f: F) -> (r: f64)
    requires forall |k: int| 0 <= k < it.remaining().len() ==> #[trigger] f.requires((it.remaining()[k],)),
    ensures exists |v: Seq<f64>| v.len() == it.remaining().len() && (forall |k: int| 0 <= k < v.len() ==> f.ensures((it.remaining()[k],), #[trigger] v[k])) && r == f64_fold_sum_s(v),
{ it.map(f).sum::<f64>() }
/// mathematical sum of a sequence of machine integers
pub open spec fn usum(v: Seq<usize>) -> int
    decreases v.len()
{
    if v.len() == 0 { 0 } else { usum(v.drop_last()) + v.last() as int }
}
/// `it.map(f).sum::<usize>()`: the mathematical sum when it fits (an overflowing sum panics in debug builds and wraps in release
/// builds: not decided)
pub uninterp spec fn usize_sum_result_s(v: Seq<usize>) -> usize;
pub broadcast axiom fn ax_usize_sum_result(v: Seq<usize>)
    requires usum(v) <= usize::MAX
    ensures #[trigger] usize_sum_result_s(v) == usum(v);
#[verifier::external_body]
pub fn verif_map_sum_usize<I: Iterator, F: FnMut(I::Item) -> usize>(it: I, f: F) -> (r: usize)
    requires forall |k: int| 0 <= k < it.remaining().len() ==> #[trigger] f.requires((it.remaining()[k],)),
    ensures exists |v: Seq<usize>| v.len() == it.remaining().len() && (forall |k: int| 0 <= k < v.len() ==> f.ensures((it.remaining()[k],), #[trigger] v[k])) && r == usize_sum_result_s(v),
{ it.map(f).sum::<usize>() }
/// `it.count()`
#[verifier::external_body]
pub fn verif_count<I: Iterator>(it: I) -> (r: usize)
    requires it.obeys_prophetic_iter_laws()
    ensures r == it.remaining().len()
{ it.count() }
/// `it.any(f)`: true exactly when f answers true on some item (f without mutable state; short-circuiting is unobservable then).
/// Stated through the sequence of answers so that a caller can name it (`choose`) and relate it to its own view of the items.
#[verifier::external_body]
pub fn verif_any<I: Iterator, F: FnMut(I::Item) -> bool>(it: I, f: F) -> (r: bool)
    requires it.obeys_prophetic_iter_laws(), forall |k: int| 0 <= k < it.remaining().len() ==> #[trigger] f.requires((it.remaining()[k],)),
    ensures exists |bs: Seq<bool>| bs.len() == it.remaining().len() && (forall |k: int| 0 <= k < bs.len() ==> f.ensures((it.remaining()[k],), #[trigger] bs[k]))
        && r == (exists |k: int| 0 <= k < bs.len() && #[trigger] bs[k]),
{ let mut it = it; it.any(f) }
/// `it.all(f)`
#[verifier::external_body]
pub fn verif_all<I: Iterator, F: FnMut(I::Item) -> bool>(it: I, f: F) -> (r: bool)
    requires it.obeys_prophetic_iter_laws(), forall |k: int| 0 <= k < it.remaining().len() ==> #[trigger] f.requires((it.remaining()[k],)),
    ensures exists |bs: Seq<bool>| bs.len() == it.remaining().len() && (forall |k: int| 0 <= k < bs.len() ==> f.ensures((it.remaining()[k],), #[trigger] bs[k]))
        && r == (forall |k: int| 0 <= k < bs.len() ==> #[trigger] bs[k]),
{ let mut it = it; it.all(f) }
/// `it.map(f).product::<f64>()`: an uninterpreted function of the sequence of factors
pub uninterp spec fn f64_prod_s(v: Seq<f64>) -> f64;
#[verifier::external_body]
pub fn verif_map_product<I: Iterator, F: FnMut(I::Item) -> f64>(it: I, f: F) -> (r: f64)
    requires forall |k: int| 0 <= k < it.remaining().len() ==> #[trigger] f.requires((it.remaining()[k],)),
    ensures exists |v: Seq<f64>| v.len() == it.remaining().len() && (forall |k: int| 0 <= k < v.len() ==> f.ensures((it.remaining()[k],), #[trigger] v[k])) && r == f64_prod_s(v),
{ it.map(f).product::<f64>() }
/// `2usize.pow(n)` (the only use in the crate): a power of two is a shift
pub assume_specification [usize::pow](base: usize, exp: u32) -> (r: usize)
    requires base == 2 ==> exp < 64, base != 2 ==> false,
    ensures base == 2 ==> r == (1usize << (exp as usize)),
;

/// `Vec<T>::try_into::<[T; N]>()`: succeeds exactly when the length is N and then keeps the elements
#[verifier::external_body]
pub fn verif_try_into<T, const N: usize>(v: Vec<T>) -> (r: Result<[T; N], Vec<T>>)
    ensures v.len() == N ==> r is Ok && r->Ok_0@ == v@, v.len() != N ==> r is Err,
{ v.try_into() }
/// `[X; N]::into_iter().collect::<Vec<_>>()`: the items of a by-value array iterator are the elements in index order (A-LIB-ARRAY);
/// used by rule R17 to hold the not yet delivered items of the inner iterator of a `flat_map`
#[verifier::external_body]
pub fn verif_array_into_vec<X, const N: usize>(a: [X; N]) -> (r: Vec<X>)
    ensures r@ == a@
{ a.into_iter().collect() }
#[verifier::external_type_specification]
#[verifier::external_body]
#[verifier::reject_recursive_types(F)]
pub struct ExRepeatWith<F>(::core::iter::RepeatWith<F>);
/// `repeat_with(f).take(n)`: n calls of f; f may mutate captured state, so only the number of items is specified (A-LIB-ITER)
#[verifier::external_body]
pub fn verif_repeat_take<U, F: FnMut() -> U>(f: F, n: usize) -> (r: ::core::iter::Take<::core::iter::RepeatWith<F>>)
    ensures r.obeys_prophetic_iter_laws(), r.remaining().len() == n,
{ ::core::iter::repeat_with(f).take(n) }
/// R3: `SmallVec::inline_size()` has no counterpart for Vec; its value is left arbitrary (A-SV)
#[verifier::external_body]
pub fn verif_smallvec_inline_size() -> (r: usize) { unimplemented!() }
// A-LIB-OPTION: Option::is_some_and(f) is f's answer on the value, and false for None
pub assume_specification<T, F: FnOnce(T) -> bool>[ ::core::option::Option::<T>::is_some_and ](o: Option<T>, f: F) -> (r: bool)
    requires o is Some ==> f.requires((o->Some_0,)),
    ensures o is None ==> !r, o is Some ==> f.ensures((o->Some_0,), r),
;
// A-LIB-OPTION: Option::filter keeps the value exactly when the predicate returns true
pub assume_specification<T, P: FnOnce(&T) -> bool>[ ::core::option::Option::<T>::filter ](o: Option<T>, p: P) -> (r: Option<T>)
    requires o is Some ==> p.requires((&o->Some_0,)),
    ensures o is None ==> r is None,
        o is Some ==> ((p.ensures((&o->Some_0,), true) ==> r == o) && (p.ensures((&o->Some_0,), false) ==> r is None)) && (r is None || r == o),
;
