// Bit-set vocabulary for TropicalSubGraphId (src/preprocessing.rs:260-320).
/// edge e is in the subgraph with identifier id
pub open spec fn bit(id: usize, e: int) -> bool { 0 <= e < 64 && (id >> (e as usize)) & 1usize == 1usize }
pub open spec fn pow2(n: int) -> int { if 0 <= n < 64 { (1usize << (n as usize)) as int } else { 0 } }
// A-POPCOUNT: population count as an uninterpreted function with its three defining facts (code-independent bit counting)
pub uninterp spec fn popcount(x: usize) -> nat;
pub assume_specification [usize::count_ones] (x: usize) -> (r: u32) ensures r == popcount(x);
pub broadcast axiom fn ax_pop_zero(x: usize) ensures (#[trigger] popcount(x) == 0) <==> x == 0;
pub broadcast axiom fn ax_pop_full(n: usize) requires n < 64 ensures #[trigger] popcount(sub(1usize << n, 1)) == n;
pub broadcast axiom fn ax_pop_clear(x: usize, k: usize) requires k < 64, bit(x, k as int) ensures #[trigger] popcount(x ^ (1usize << k)) == popcount(x) - 1;
pub broadcast group popcount_axioms { ax_pop_zero, ax_pop_full, ax_pop_clear }
