// Bit-set vocabulary for TropicalSubGraphId (src/preprocessing.rs:260-320).
/// edge e is in the subgraph with identifier id
pub open spec fn bit(id: usize, e: int) -> bool { 0 <= e < 64 && (id >> (e as usize)) & 1usize == 1usize }
pub open spec fn pow2(n: int) -> int { if 0 <= n < 64 { (1usize << (n as usize)) as int } else { 0 } }
/// population count, defined by recursion on the bits; the only assumption is that `usize::count_ones` computes it (A-LIB)
pub open spec fn popcount(x: usize) -> nat
    decreases x via popcount_dec
{
    if x == 0 { 0 } else { ((x & 1usize) as nat) + popcount(x >> 1usize) }
}
#[via_fn]
proof fn popcount_dec(x: usize) {
    if x != 0 { assert((x >> 1usize) < x) by(bit_vector) requires x != 0; }
}
pub assume_specification [usize::count_ones] (x: usize) -> (r: u32) ensures r == popcount(x);
/// a power of two has exactly one bit set (A-LIB)
pub assume_specification [usize::is_power_of_two] (x: usize) -> (r: bool) ensures r == (popcount(x) == 1);
proof fn lemma_shr_dec(x: usize)
    requires x != 0
    ensures (x >> 1usize) < x
{ assert((x >> 1usize) < x) by(bit_vector) requires x != 0; }
pub proof fn lemma_pop_unfold(y: usize)
    ensures popcount(y) == ((y & 1usize) as nat) + popcount(y >> 1usize)
{
    if y == 0 {
        assert((0usize & 1usize) == 0usize) by(bit_vector);
        assert((0usize >> 1usize) == 0usize) by(bit_vector);
    }
}
/// the three facts about population count used by the sampling contracts — PROVED (they were axioms in an earlier revision)
pub broadcast proof fn ax_pop_zero(x: usize)
    ensures (#[trigger] popcount(x) == 0) <==> x == 0
    decreases x
{
    if x != 0 {
        lemma_shr_dec(x);
        ax_pop_zero(x >> 1usize);
        assert((x & 1usize) == 1usize || (x >> 1usize) != 0) by(bit_vector) requires x != 0;
        assert((x & 1usize) == 0usize || (x & 1usize) == 1usize) by(bit_vector);
    }
}
pub broadcast proof fn ax_pop_full(n: usize)
    requires n < 64
    ensures #[trigger] popcount(sub(1usize << n, 1)) == n
    decreases n
{
    if n == 0 {
        assert(sub(1usize << 0usize, 1) == 0usize) by(bit_vector);
    } else {
        let m = (n - 1) as usize;
        ax_pop_full(m);
        assert(sub(1usize << n, 1) != 0usize) by(bit_vector) requires 1 <= n < 64;
        assert((sub(1usize << n, 1) & 1usize) == 1usize) by(bit_vector) requires 1 <= n < 64;
        assert((sub(1usize << n, 1) >> 1usize) == sub(1usize << m, 1)) by(bit_vector) requires 1 <= n < 64, m == n - 1;
    }
}
pub broadcast proof fn ax_pop_clear(x: usize, k: usize)
    requires k < 64, bit(x, k as int)
    ensures #[trigger] popcount(x ^ (1usize << k)) == popcount(x) - 1
    decreases k
{
    let y = x ^ (1usize << k);
    lemma_pop_unfold(x);
    lemma_pop_unfold(y);
    if k == 0 {
        assert((x & 1usize) == 1usize) by(bit_vector) requires (x >> 0usize) & 1usize == 1usize;
        assert(((x ^ (1usize << 0usize)) & 1usize) == 0usize) by(bit_vector) requires (x & 1usize) == 1usize;
        assert(((x ^ (1usize << 0usize)) >> 1usize) == (x >> 1usize)) by(bit_vector);
    } else {
        let m = (k - 1) as usize;
        assert(((x >> 1usize) >> m) & 1usize == 1usize) by(bit_vector) requires 1 <= k < 64, m == k - 1, (x >> k) & 1usize == 1usize;
        ax_pop_clear(x >> 1usize, m);
        assert(((x ^ (1usize << k)) & 1usize) == (x & 1usize)) by(bit_vector) requires 1 <= k < 64;
        assert(((x ^ (1usize << k)) >> 1usize) == ((x >> 1usize) ^ (1usize << m))) by(bit_vector) requires 1 <= k < 64, m == k - 1;
    }
}
/// the bitwise operations on subset ids are commutative (proved): `bit ^ id` for `id ^ bit` must not alarm
pub broadcast proof fn lemma_xor_comm(a: usize, b: usize) ensures #[trigger] (a ^ b) == (b ^ a) { assert((a ^ b) == (b ^ a)) by(bit_vector); }
pub broadcast proof fn lemma_and_comm(a: usize, b: usize) ensures #[trigger] (a & b) == (b & a) { assert((a & b) == (b & a)) by(bit_vector); }
pub broadcast proof fn lemma_or_comm(a: usize, b: usize) ensures #[trigger] (a | b) == (b | a) { assert((a | b) == (b | a)) by(bit_vector); }
pub broadcast group popcount_axioms { ax_pop_zero, ax_pop_full, ax_pop_clear, lemma_xor_comm, lemma_and_comm, lemma_or_comm }
