// Layer S — the abstract scalar `R`.
// Every operation of `trait MomTropFloat` (src/float.rs:10-66) and of its operator super-traits is an
// `external_body` function whose only contract is `result == <uninterpreted symbol>(arguments)`.
// Nothing else is known about R: no order, no algebra.  This is exactly what generic code over
// `T: MomTropFloat` may rely on, so a contract proved from layer S alone holds for every T (f64 with
// NaN and rounding included).  Assumptions carried by this file (listed in evidence):
//   A-PURE   scalar operations are deterministic functions of their arguments without side effects
//   A-OPS    the by-value / by-reference variants of one operator (a*b, a*&b, a.ref_mul(&b)) compute the same function
//   A-CONST  zero()/one()/PI()/from_f64()/from_isize() do not depend on the receiver
#[verifier::external_body]
pub struct R { x: f64 }
pub type T = R;

pub uninterp spec fn add_s(a: R, b: R) -> R;
pub uninterp spec fn sub_s(a: R, b: R) -> R;
pub uninterp spec fn mul_s(a: R, b: R) -> R;
pub uninterp spec fn div_s(a: R, b: R) -> R;
pub uninterp spec fn neg_s(a: R) -> R;
pub uninterp spec fn zero_s() -> R;
pub uninterp spec fn one_s() -> R;
pub uninterp spec fn pi_s() -> R;
pub uninterp spec fn ln_s(a: R) -> R;
pub uninterp spec fn exp_s(a: R) -> R;
pub uninterp spec fn cos_s(a: R) -> R;
pub uninterp spec fn sin_s(a: R) -> R;
pub uninterp spec fn sqrt_s(a: R) -> R;
pub uninterp spec fn inv_s(a: R) -> R;
pub uninterp spec fn abs_s(a: R) -> R;
pub uninterp spec fn powf_s(a: R, p: R) -> R;
pub uninterp spec fn from_isize_s(v: int) -> R;
pub uninterp spec fn from_f64_s(v: f64) -> R;
pub uninterp spec fn to_f64_s(a: R) -> f64;
pub uninterp spec fn eq_s(a: R, b: R) -> bool;
pub uninterp spec fn lt_s(a: R, b: R) -> bool;
pub uninterp spec fn le_s(a: R, b: R) -> bool;
pub uninterp spec fn gt_s(a: R, b: R) -> bool;
pub uninterp spec fn ge_s(a: R, b: R) -> bool;
// C19: narrowing to f64 is allowed only where a unit says so (the Gamma boundary, src/gamma.rs:11-29)
pub uninterp spec fn narrowing_allowed() -> bool;

/// a scalar operand passed by value or by reference (the trait has both `RefMul<&Self>` and `RefMul<Self>`)
pub trait RArg: Sized { spec fn rv(self) -> R; }
impl RArg for R { open spec fn rv(self) -> R { self } }
impl<'a> RArg for &'a R { open spec fn rv(self) -> R { *self } }

impl R {
    #[verifier::external_body] pub fn one(&self) -> (r: R) ensures r == one_s() { unimplemented!() }
    #[verifier::external_body] pub fn zero(&self) -> (r: R) ensures r == zero_s() { unimplemented!() }
    #[verifier::external_body] #[allow(non_snake_case)] pub fn PI(&self) -> (r: R) ensures r == pi_s() { unimplemented!() }
    #[verifier::external_body] pub fn ln(&self) -> (r: R) ensures r == ln_s(*self) { unimplemented!() }
    #[verifier::external_body] pub fn exp(&self) -> (r: R) ensures r == exp_s(*self) { unimplemented!() }
    #[verifier::external_body] pub fn cos(&self) -> (r: R) ensures r == cos_s(*self) { unimplemented!() }
    #[verifier::external_body] pub fn sin(&self) -> (r: R) ensures r == sin_s(*self) { unimplemented!() }
    #[verifier::external_body] pub fn sqrt(&self) -> (r: R) ensures r == sqrt_s(*self) { unimplemented!() }
    #[verifier::external_body] pub fn inv(&self) -> (r: R) ensures r == inv_s(*self) { unimplemented!() }
    #[verifier::external_body] pub fn abs(&self) -> (r: R) ensures r == abs_s(*self) { unimplemented!() }
    #[verifier::external_body] pub fn powf(&self, power: &R) -> (r: R) ensures r == powf_s(*self, *power) { unimplemented!() }
    #[verifier::external_body] pub fn from_isize(&self, value: isize) -> (r: R) ensures r == from_isize_s(value as int) { unimplemented!() }
    #[verifier::external_body] pub fn from_f64(&self, value: f64) -> (r: R) ensures r == from_f64_s(value) { unimplemented!() }
    #[verifier::external_body] pub fn to_f64(&self) -> (r: f64) requires narrowing_allowed() /* [C19] narrowing to f64 outside the Gamma boundary */ ensures r == to_f64_s(*self) { unimplemented!() }
    // ref_ops::{RefAdd,RefSub,RefMul,RefDiv}: blanket impls forwarding to `&a ⊕ b`
    #[verifier::external_body] pub fn ref_add<A: RArg>(&self, rhs: A) -> (r: R) ensures r == add_s(*self, rhs.rv()) { unimplemented!() }
    #[verifier::external_body] pub fn ref_sub<A: RArg>(&self, rhs: A) -> (r: R) ensures r == sub_s(*self, rhs.rv()) { unimplemented!() }
    #[verifier::external_body] pub fn ref_mul<A: RArg>(&self, rhs: A) -> (r: R) ensures r == mul_s(*self, rhs.rv()) { unimplemented!() }
    #[verifier::external_body] pub fn ref_div<A: RArg>(&self, rhs: A) -> (r: R) ensures r == div_s(*self, rhs.rv()) { unimplemented!() }
    #[verifier::external_body] pub fn ref_neg(&self) -> (r: R) ensures r == neg_s(*self) { unimplemented!() }
}
impl Clone for R {
    #[verifier::external_body] fn clone(&self) -> (r: R) ensures r == *self { unimplemented!() }
}
impl vstd::std_specs::ops::AddSpecImpl<R> for R {
    open spec fn obeys_add_spec() -> bool { false }
    open spec fn add_req(self, rhs: R) -> bool { true }
    open spec fn add_spec(self, rhs: R) -> R { self }
}
impl ::core::ops::Add<R> for R {
    type Output = R;
    #[verifier::external_body] fn add(self, rhs: R) -> (r: R) ensures r == add_s(self, rhs) { unimplemented!() }
}
impl<'a> vstd::std_specs::ops::AddSpecImpl<&'a R> for R {
    open spec fn obeys_add_spec() -> bool { false }
    open spec fn add_req(self, rhs: &'a R) -> bool { true }
    open spec fn add_spec(self, rhs: &'a R) -> R { self }
}
impl<'a> ::core::ops::Add<&'a R> for R {
    type Output = R;
    #[verifier::external_body] fn add(self, rhs: &'a R) -> (r: R) ensures r == add_s(self, *rhs) { unimplemented!() }
}
impl vstd::std_specs::ops::SubSpecImpl<R> for R {
    open spec fn obeys_sub_spec() -> bool { false }
    open spec fn sub_req(self, rhs: R) -> bool { true }
    open spec fn sub_spec(self, rhs: R) -> R { self }
}
impl ::core::ops::Sub<R> for R {
    type Output = R;
    #[verifier::external_body] fn sub(self, rhs: R) -> (r: R) ensures r == sub_s(self, rhs) { unimplemented!() }
}
impl<'a> vstd::std_specs::ops::SubSpecImpl<&'a R> for R {
    open spec fn obeys_sub_spec() -> bool { false }
    open spec fn sub_req(self, rhs: &'a R) -> bool { true }
    open spec fn sub_spec(self, rhs: &'a R) -> R { self }
}
impl<'a> ::core::ops::Sub<&'a R> for R {
    type Output = R;
    #[verifier::external_body] fn sub(self, rhs: &'a R) -> (r: R) ensures r == sub_s(self, *rhs) { unimplemented!() }
}
impl vstd::std_specs::ops::MulSpecImpl<R> for R {
    open spec fn obeys_mul_spec() -> bool { false }
    open spec fn mul_req(self, rhs: R) -> bool { true }
    open spec fn mul_spec(self, rhs: R) -> R { self }
}
impl ::core::ops::Mul<R> for R {
    type Output = R;
    #[verifier::external_body] fn mul(self, rhs: R) -> (r: R) ensures r == mul_s(self, rhs) { unimplemented!() }
}
impl<'a> vstd::std_specs::ops::MulSpecImpl<&'a R> for R {
    open spec fn obeys_mul_spec() -> bool { false }
    open spec fn mul_req(self, rhs: &'a R) -> bool { true }
    open spec fn mul_spec(self, rhs: &'a R) -> R { self }
}
impl<'a> ::core::ops::Mul<&'a R> for R {
    type Output = R;
    #[verifier::external_body] fn mul(self, rhs: &'a R) -> (r: R) ensures r == mul_s(self, *rhs) { unimplemented!() }
}
impl vstd::std_specs::ops::DivSpecImpl<R> for R {
    open spec fn obeys_div_spec() -> bool { false }
    open spec fn div_req(self, rhs: R) -> bool { true }
    open spec fn div_spec(self, rhs: R) -> R { self }
}
impl ::core::ops::Div<R> for R {
    type Output = R;
    #[verifier::external_body] fn div(self, rhs: R) -> (r: R) ensures r == div_s(self, rhs) { unimplemented!() }
}
impl<'a> vstd::std_specs::ops::DivSpecImpl<&'a R> for R {
    open spec fn obeys_div_spec() -> bool { false }
    open spec fn div_req(self, rhs: &'a R) -> bool { true }
    open spec fn div_spec(self, rhs: &'a R) -> R { self }
}
impl<'a> ::core::ops::Div<&'a R> for R {
    type Output = R;
    #[verifier::external_body] fn div(self, rhs: &'a R) -> (r: R) ensures r == div_s(self, *rhs) { unimplemented!() }
}
impl<'a> vstd::std_specs::ops::AddAssignSpecImpl<&'a R> for R {
    open spec fn obeys_add_assign_spec() -> bool { false }
    open spec fn add_assign_req(&self, rhs: &'a R) -> bool { true }
    open spec fn add_assign_spec(&self, rhs: &'a R) -> &R { self }
}
impl<'a> ::core::ops::AddAssign<&'a R> for R {
    #[verifier::external_body] fn add_assign(&mut self, rhs: &'a R) ensures *final(self) == add_s(*old(self), *rhs) { unimplemented!() }
}
impl<'a> vstd::std_specs::ops::SubAssignSpecImpl<&'a R> for R {
    open spec fn obeys_sub_assign_spec() -> bool { false }
    open spec fn sub_assign_req(&self, rhs: &'a R) -> bool { true }
    open spec fn sub_assign_spec(&self, rhs: &'a R) -> &R { self }
}
impl<'a> ::core::ops::SubAssign<&'a R> for R {
    #[verifier::external_body] fn sub_assign(&mut self, rhs: &'a R) ensures *final(self) == sub_s(*old(self), *rhs) { unimplemented!() }
}
impl<'a> vstd::std_specs::ops::MulAssignSpecImpl<&'a R> for R {
    open spec fn obeys_mul_assign_spec() -> bool { false }
    open spec fn mul_assign_req(&self, rhs: &'a R) -> bool { true }
    open spec fn mul_assign_spec(&self, rhs: &'a R) -> &R { self }
}
impl<'a> ::core::ops::MulAssign<&'a R> for R {
    #[verifier::external_body] fn mul_assign(&mut self, rhs: &'a R) ensures *final(self) == mul_s(*old(self), *rhs) { unimplemented!() }
}
impl vstd::std_specs::ops::NegSpecImpl for R {
    open spec fn obeys_neg_spec() -> bool { false }
    open spec fn neg_req(self) -> bool { true }
    open spec fn neg_spec(self) -> R { self }
}
impl ::core::ops::Neg for R {
    type Output = R;
    #[verifier::external_body] fn neg(self) -> (r: R) ensures r == neg_s(self) { unimplemented!() }
}
impl PartialEq for R {
    #[verifier::external_body] fn eq(&self, other: &R) -> (b: bool) ensures b == eq_s(*self, *other) { unimplemented!() }
}
impl PartialOrd for R {
    #[verifier::external_body] fn partial_cmp(&self, other: &R) -> (o: Option<::core::cmp::Ordering>) { unimplemented!() }
    #[verifier::external_body] fn lt(&self, other: &R) -> (b: bool) ensures b == lt_s(*self, *other) { unimplemented!() }
    #[verifier::external_body] fn le(&self, other: &R) -> (b: bool) ensures b == le_s(*self, *other) { unimplemented!() }
    #[verifier::external_body] fn gt(&self, other: &R) -> (b: bool) ensures b == gt_s(*self, *other) { unimplemented!() }
    #[verifier::external_body] fn ge(&self, other: &R) -> (b: bool) ensures b == ge_s(*self, *other) { unimplemented!() }
}

// Laws that every lawful scalar satisfies and that hold for f64 exactly (they make the contracts insensitive to harmless
// refactorings such as `b + a` for `a + b` or `u <= c` for `c >= u`):
//   A-COMM       addition and multiplication are commutative (IEEE 754: bit-exact, NaN included up to payload)
//   A-PARTIALORD the documented duality of PartialOrd:  a > b  <=>  b < a,   a >= b  <=>  b <= a
pub broadcast axiom fn ax_add_comm(a: R, b: R) ensures #[trigger] add_s(a, b) == add_s(b, a);
pub broadcast axiom fn ax_mul_comm(a: R, b: R) ensures #[trigger] mul_s(a, b) == mul_s(b, a);
pub broadcast axiom fn ax_gt_dual(a: R, b: R) ensures #[trigger] gt_s(a, b) == lt_s(b, a);
pub broadcast axiom fn ax_ge_dual(a: R, b: R) ensures #[trigger] ge_s(a, b) == le_s(b, a);
pub broadcast axiom fn ax_eq_sym(a: R, b: R) ensures #[trigger] eq_s(a, b) == eq_s(b, a);
// the group `scalar_laws` itself is declared in lib.rs, after the f64 symbols, so that it can contain the same laws for f64
