#!/bin/bash
# like try_seeded.sh but never touches /repo: the patch is applied to a scratch copy (use this while background runs read /repo).
# usage: try_scratch.sh PATCH ID...
patch=$1; shift
s=$(mktemp -d /tmp/verif-try-XXXX); rsync -a --exclude target --exclude .git ${VERIF_BASE_REPO:-/repo}/ $s/
if ! (cd $s && patch -s -p1 < "$patch"); then echo "APPLY-FAILED"; rm -rf $s; exit 2; fi
for id in "$@"; do
  (cd /verif && VERIF_REPO=$s VERIF_EVIDENCE_DIR=/tmp/verif-try-evidence ./check $id quick 2>&1 | grep -E "^(OK|VIOLATION|UNDECIDED|FAILED-OBLIGATION)" | cut -c1-230 | head -4)
done
rm -rf $s
