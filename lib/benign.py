#!/usr/bin/env python3
"""benign.py — false-alarm regression: apply each behaviour-preserving patch under seeded/benign/<name>/patch.diff to a scratch
copy of /repo (never to /repo) and run the quick check of every property whose units extract from a touched file.
Expected exit: 0 (held) — 2 (undecided) is tolerated and reported — 1 is a FALSE ALARM.   usage: benign.py [name ...]"""
import os, sys, re, json, glob, subprocess, tempfile, shutil
ROOT = os.path.dirname(os.path.dirname(os.path.abspath(__file__)))
P = json.load(open(os.path.join(ROOT, "contracts/properties.json")))

def files_of_unit(u, seen=None):
    seen = seen if seen is not None else set()
    out = set()
    for ext in (".vspec", ".vfrag"):
        p = os.path.join(ROOT, "contracts/units", u + ext)
        if os.path.exists(p) and p not in seen:
            seen.add(p)
            for line in open(p):
                m = re.match(r"@(extract|struct)\s+(\S+)\s+::", line)
                if m:
                    out.add(m.group(2))
                m = re.match(r"@(use|use-stubs)\s+(\S+)", line)
                if m:
                    out |= files_of_unit(m.group(2).replace(".vfrag", ""), seen)
    return out

def props_for(files):
    res = []
    for pid, p in sorted(P.items()):
        fs = set()
        for u in p.get("units", []):
            fs |= files_of_unit(u["unit"])
        for k in p.get("kani", []) or []:
            fs.add("src/%s.rs" % k["module"])
        if p.get("scan_repo_state"):
            fs |= set(files)
        if fs & set(files):
            res.append(pid)
    return res

def main():
    names = sys.argv[1:] or sorted(os.path.basename(os.path.dirname(d)) for d in glob.glob(os.path.join(ROOT, "seeded/benign/*/patch.diff")))
    outp = os.path.join(ROOT, "seeded/benign/RESULTS.txt")
    bad = 0
    lines = []
    def one(n):
        patch = os.path.join(ROOT, "seeded/benign", n, "patch.diff")
        files = sorted(set(re.findall(r"^\+\+\+ b/(\S+)", open(patch).read(), re.M)))
        scratch = tempfile.mkdtemp(prefix="verif-benign-", dir="/tmp")
        try:
            subprocess.run(["rsync", "-a", "--exclude", "target", "--exclude", ".git", os.environ.get("VERIF_BASE_REPO", "/repo") + "/", scratch + "/"], check=True)
            r = subprocess.run(["patch", "-s", "-p1", "-i", patch], cwd=scratch)
            if r.returncode != 0:
                return "%s APPLY-FAILED" % n, 1
            env = dict(os.environ, VERIF_REPO=scratch, VERIF_EVIDENCE_DIR="/tmp/verif-benign-evidence")
            res = []
            b = 0
            for pid in props_for(files):
                r = subprocess.run([os.path.join(ROOT, "check"), pid, "quick"], env=env, stdout=subprocess.PIPE, stderr=subprocess.STDOUT)
                txt = r.stdout.decode()
                note = ""
                if r.returncode != 0:
                    m = re.search(r"^(FAILED-OBLIGATION|UNDECIDED)[^\n]*", txt, re.M)
                    note = " {" + (m.group(0)[:220] if m else "") + "}"
                res.append("%s=%d%s" % (pid, r.returncode, note))
                if r.returncode == 1:
                    b = 1
            return "%s files=%s :: %s" % (n, ",".join(files), " ".join(res)), b
        finally:
            shutil.rmtree(scratch, ignore_errors=True)
    import concurrent.futures
    with concurrent.futures.ThreadPoolExecutor(max_workers=int(os.environ.get("BENIGN_JOBS", "3"))) as ex:
        for line, b in ex.map(one, names):
            lines.append(line)
            bad |= b
            print(line, flush=True)
    if not sys.argv[1:]:
        with open(outp, "w") as f:
            f.write("\n".join(lines) + "\nDONE false_alarms=%d\n" % bad)
    return bad

if __name__ == "__main__":
    sys.exit(main())
