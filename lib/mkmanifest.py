#!/usr/bin/env python3
"""Regenerates /verif/MANIFEST.json from contracts/properties.json and contracts/not_applicable.json."""
import json, os, sys
ROOT = os.path.dirname(os.path.dirname(os.path.abspath(__file__)))
props = json.load(open(os.path.join(ROOT, "contracts/properties.json")))
na = json.load(open(os.path.join(ROOT, "contracts/not_applicable.json")))
all_ids = [json.loads(l)["id"] for l in open(os.path.join(ROOT, "properties.jsonl")) if l.strip()]
na = [n for n in na if n["property_id"] not in props]
for i in all_ids:
    if i not in props and not any(n["property_id"] == i for n in na):
        na.append({"property_id": i, "reason": "not claimed yet: its contract unit is still under construction in this round (see DESIGN.md §9); no check is registered for it"})
na.sort(key=lambda n: n["property_id"])
checks = []
for pid in sorted(props):
    P = props[pid]
    checks.append({
        "property_id": pid,
        "quick_cmd": "./check %s quick" % pid,
        "thorough_cmd": "./check %s thorough" % pid,
        "evidence_file": "/verif/evidence/%s.json" % pid,
        "replay_cmd_template": "./check --replay {path}",
        "engine": P.get("engine", "verus-contracts"),
        "level_claimed": {"category": P.get("level", "proof"), "text": P["level_text"], "design_ref": P.get("design_ref", "DESIGN.md §6 " + pid)},
        "level_note": P["level_note"],
        "technique": P.get("technique", "contract-based deductive verification (Verus) of functions extracted mechanically from /repo on every run"),
    })
m = {
    "version": 1,
    "setup_cmd": "cd /verif/mtx && CARGO_NET_OFFLINE=true cargo build --release --offline",
    "hooks": {
        "guard": "cfg(kani)",
        "enable": "no hook is committed to /repo: Verus units are re-extracted from /repo/src by /verif/mtx on every run; Kani harnesses are injected as `#[cfg(kani)] mod` lines into a scratch copy of /repo (outside /repo and /verif) that is deleted after the run",
        "baseline_off_cmd": "cd /repo && cargo test --workspace --no-fail-fast --offline",
        "source_commits": [],
        "add_only": True,
    },
    "engines": [
        {"name": "verus-contracts", "path": "/verif/check", "serves_properties": sorted(p for p in props if props[p].get("units")),
         "kind_free_text": "mtx (syn-based mechanical extractor) + Verus 0.2026.09.13 / Z3; contracts in /verif/contracts/units/*.vspec"},
        {"name": "kani-bounded", "path": "/verif/lib/vkani.py", "serves_properties": sorted(p for p in props if props[p].get("kani")),
         "kind_free_text": "Kani 0.68 / CBMC 6.11 on the real compiled functions in a scratch copy; loop-free complete harnesses and bounded stand-ins (labelled bounded)"},
    ],
    "checks": checks,
    "not_applicable": na,
    "notes": "Genuine defects repaired by fix: commits in /repo are recorded in /verif/known-findings.txt. Exit codes of ./check: 0 ok, 1 VIOLATION, 2 undecided (lost anchor / unsupported construct / resource limit) — never an alarm.",
}
json.dump(m, open(os.path.join(ROOT, "MANIFEST.json"), "w"), indent=1)
print("MANIFEST.json: %d checks, %d not_applicable" % (len(checks), len(na)))
