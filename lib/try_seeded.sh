#!/bin/bash
# applies one seeded patch to /repo, runs the given checks (evidence redirected: /verif/evidence is only ever written from the unchanged tree), restores /repo.  usage: try_seeded.sh PATCH ID...
patch=$1; shift
cd /repo || exit 2
if [ -n "$(git status --porcelain -- src)" ]; then echo "/repo/src is dirty"; exit 2; fi
if ! git apply "$patch" 2>/tmp/apply.err; then
  echo "APPLY-FAILED $(head -2 /tmp/apply.err)"; git checkout -- . ; exit 2
fi
for id in "$@"; do
  (cd /verif && VERIF_EVIDENCE_DIR=/tmp/verif-try-evidence ./check $id quick 2>&1 | grep -E "^(OK|VIOLATION|UNDECIDED|FAILED-OBLIGATION)" | cut -c1-230 | head -4)
done
git checkout -- . ; git clean -fdq -- src tests 2>/dev/null
git status --porcelain | head -3
