"""Driver for the contract-based verification of momtrop (see DESIGN.md §4, §5, §7).

Per property: re-extract the unit(s) from /repo with mtx, run Verus, account obligations, scan assumptions,
run vacuity canaries, run the Kani stand-ins, write evidence, and report.
"""
import sys, os, json, time, subprocess, re, hashlib, shutil, concurrent.futures, tempfile

REPO = os.environ.get("VERIF_REPO", "/repo")
VERUS = shutil.which("verus") or "/usr/local/bin/verus"

VERIF_FAIL_PATTERNS = [
    "postcondition not satisfied", "precondition not satisfied", "invariant not satisfied",
    "assertion failed", "possible arithmetic underflow/overflow", "possible division by zero",
    "decreases not satisfied", "possible bit shift underflow/overflow", "loop invariant",
    "recommendation not met", "unable to prove", "failed to prove", "might not be allowed",
    "could not prove termination", "possible truncation", "termination",
    "assert_by", "by(bit_vector)", "nonlinear_arith", "not satisfied",
]
RESOURCE_PATTERNS = ["Resource limit", "rlimit", "timed out", "out of memory"]


def log(*a):
    print(*a, file=sys.stderr, flush=True)


def sh(cmd, cwd=None, timeout=None, env=None):
    t0 = time.time()
    try:
        p = subprocess.run(cmd, cwd=cwd, stdout=subprocess.PIPE, stderr=subprocess.PIPE, timeout=timeout, env=env)
        return p.returncode, p.stdout.decode("utf-8", "replace"), p.stderr.decode("utf-8", "replace"), time.time() - t0
    except subprocess.TimeoutExpired as e:
        return 124, (e.stdout or b"").decode("utf-8", "replace"), (e.stderr or b"").decode("utf-8", "replace") + "\nTIMEOUT", time.time() - t0


# failed exits of `sample` that identify one clause of its contract (text of the real return statement)
ATTRIBUTION = {
    "matrix": [
        # the fold over the powers of N and its closure belong to the triangular inverse (C15)
        {"regex": r"verif_fold\(verif_enumerate\(powers_of_n", "tags": ["C15"]},
        {"regex": r"ensures o\.wf\(\) && o\.dim == acc\.dim", "tags": ["C15"]},
    ],
    "sampling": [
        {"regex": r"return Err\(SamplingError::MatrixError", "tags": ["C16"]},
        {"regex": r"SamplingError::GammaError\(e_ctor\)", "tags": ["C12", "C14"]},
    ],
}


class Undecided(Exception):
    pass


# unit file -> what was dropped when the unit had to be extracted with --lenient
LENIENT_NOTES = {}


# ------------------------------------------------------------------------------------------------
# one unit: extract + verify
# ------------------------------------------------------------------------------------------------
def extract_unit(root, unit, workdir, canary=None, flags_off=False):
    os.makedirs(workdir, exist_ok=True)
    tag = unit if canary is None else "%s.canary.%s" % (unit, re.sub(r"\W+", "_", canary))
    if flags_off:
        tag += ".flagsoff"
    # Verus takes the crate name from the file name
    out = os.path.join(workdir, re.sub(r"\W+", "_", tag) + ".rs")
    mapf = out[:-3] + ".map.json"
    cmd = [os.path.join(root, "mtx/target/release/mtx"), os.path.join(root, "contracts/units", unit + ".vspec"),
           "--repo", REPO, "--out", out, "--map", mapf, "--contracts", os.path.join(root, "contracts")]
    if canary:
        cmd += ["--canary", canary]
    if flags_off:
        cmd += ["--flags-off"]
    rc, so, se, dt = sh(cmd)
    LENIENT_NOTES.pop(out, None)
    if rc != 0 and "lost anchor" in (se or so):
        # an overlay clause (proof hint, invariant, closure annotation) no longer finds its place: re-extract with those clauses
        # dropped.  The contracts themselves are kept, so if the unit still verifies the same contracts are proved (exit 0);
        # if it does not, verify_unit reports the lost anchor as UNDECIDED - never as a violation.
        first = (se or so).strip()
        rc2, so2, se2, dt2 = sh(cmd + ["--lenient"])
        if rc2 == 0:
            LENIENT_NOTES[out] = {"lost": first, "dropped": [l[len("MTX-LENIENT: "):] for l in se2.splitlines() if l.startswith("MTX-LENIENT: ")]}
            return out, mapf
    if rc != 0:
        raise Undecided("extraction of unit %s failed (rc=%d): %s" % (unit, rc, (se or so).strip()))
    return out, mapf


def run_verus(path, rlimit, seed, threads=8, timeout=900, nonlinear=False, only_function=None):
    cmd = [VERUS, os.path.basename(path), "--output-json", "--time-expanded", "--rlimit", str(rlimit),
           "--smt-option", "smt.random_seed=%d" % seed, "--error-format=json", "--num-threads", str(threads),
           "--multiple-errors", "4", "--no-report-long-running"]
    if nonlinear:
        # exact-arithmetic differential only: let Z3 reason about products of real-valued terms (associativity, distribution)
        cmd += ["--smt-option", "smt.arith.nl=true"]
    if only_function:
        # differential re-verification: only the function whose obligation failed is looked at again
        cmd += ["--verify-only-module", "unit", "--verify-function", only_function]
    rc, so, se, dt = sh(cmd, cwd=os.path.dirname(path), timeout=timeout)
    return rc, so, se, dt, " ".join(cmd)


def parse_verus(path, mapf, rc, so, se):
    """-> dict(status, verified, errors, functions, failures, undecided_reason)"""
    crate = os.path.basename(path)[:-3]
    res = {"status": "ok", "verified": 0, "errors": 0, "functions": {}, "failures": [], "reason": None,
           "smt_ms": 0, "total_ms": 0}
    diags = []
    raw = []
    for line in se.splitlines():
        line = line.strip()
        if not line.startswith("{"):
            if line:
                raw.append(line)
            continue
        try:
            j = json.loads(line)
        except Exception:
            raw.append(line)
            continue
        if j.get("$message_type") == "diagnostic" or "level" in j:
            diags.append(j)
    try:
        js = json.loads(so) if so.strip().startswith("{") else None
    except Exception:
        js = None
    errors = [d for d in diags if d.get("level") == "error" and not d.get("message", "").startswith("aborting due to")]
    if js is None:
        res["status"] = "undecided"
        msgs = [d.get("message", "") for d in errors] or raw[-5:]
        res["reason"] = "Verus produced no result (front-end error / crash): " + " | ".join(msgs)[:1500]
        return res
    vr = js.get("verification-results", {})
    res["verified"] = vr.get("verified", 0)
    res["errors"] = vr.get("errors", 0)
    tm = js.get("times-ms", {})
    res["total_ms"] = tm.get("total", 0)
    res["smt_ms"] = tm.get("smt", {}).get("total", 0)
    for m in tm.get("smt", {}).get("smt-run-module-times", []):
        for f in m.get("function-breakdown", []):
            name = f["function"]
            name = name[len(crate) + 2:] if name.startswith(crate + "::") else name
            name = name[len("unit::"):] if name.startswith("unit::") else name
            res["functions"][name] = {"success": bool(f.get("success")), "ms": f.get("time", 0), "rlimit": f.get("rlimit", 0),
                                      "mode": f.get("mode:", f.get("mode", ""))}
    if vr.get("encountered-vir-error"):
        res["status"] = "undecided"
        res["reason"] = "Verus VIR error (unsupported construct): " + " | ".join(d.get("message", "") for d in errors)[:1500]
        return res
    if not errors and (vr.get("success") or (vr.get("errors", 0) == 0 and vr.get("verified", 0) > 0)):
        # (a partial run with --verify-function reports success=false although nothing failed)
        return res
    # classify errors
    m = json.load(open(mapf))
    items = m.get("items", [])
    lines = open(path).read().splitlines()

    def locate(unit_line):
        for it in items:
            ul = it.get("unit_lines")
            if ul and ul[0] <= unit_line <= ul[1]:
                repo_line = None
                bf = it.get("body_first_unit_line")
                lm = it.get("body_linemap") or []
                if bf is not None and 0 <= unit_line - bf < len(lm):
                    repo_line = lm[unit_line - bf]
                return it, repo_line
        return None, None

    fails = []
    hard = []
    resource = []
    for d in errors:
        msg = d.get("message", "")
        spans = d.get("spans", [])
        prim = [s for s in spans if s.get("is_primary")] or spans
        line = prim[0]["line_start"] if prim else 0
        # Verus reached the verification stage (result JSON present, no VIR error): every remaining error is a failed
        # obligation, except solver-budget messages
        is_res = any(p in msg for p in RESOURCE_PATTERNS)
        # a diagnostic with a rustc error code (E0599 ...) is a compile error of the extracted text: unsupported / unknown item, undecided
        is_rustc = bool(d.get("code"))
        is_ver = not is_res and not is_rustc
        it, repo_line = locate(line)
        ent = {
            "message": msg,
            "unit_file": os.path.basename(path),
            "unit_line": line,
            "unit_text": (lines[line - 1].strip() if 0 < line <= len(lines) else ""),
            "function": it["name"] if it else None,
            "selector": it["selector"] if it else None,
            "repo_file": it["repo_file"] if it else None,
            "repo_fn_lines": it["repo_lines"] if it else None,
            "repo_line": repo_line,
            "labels": [(s.get("line_start"), s.get("label"), (lines[s["line_start"] - 1].strip() if 0 < s.get("line_start", 0) <= len(lines) else "")) for s in spans],
            "rendered": d.get("rendered", "")[:3000],
        }
        if is_res:
            resource.append(ent)
        elif is_ver:
            fails.append(ent)
        else:
            hard.append(ent)
    if hard:
        res["status"] = "undecided"
        res["reason"] = "Verus front-end / unsupported-construct error: " + " | ".join("%s (unit line %s: %s)" % (h["message"], h["unit_line"], h["unit_text"]) for h in hard)[:2000]
        res["failures"] = hard
        return res
    if resource and not fails:
        res["status"] = "resource"
        res["failures"] = resource
        res["reason"] = "resource limit: " + " | ".join(r["message"] for r in resource)[:500]
        return res
    if fails:
        res["status"] = "fail"
        res["failures"] = fails
        res["resource"] = resource
        return res
    if not vr.get("success"):
        res["status"] = "undecided"
        res["reason"] = "Verus reported failure without a classifiable error: " + " | ".join(raw[-5:])
    return res


def insert_lemma_canary(path, lemma):
    """vacuity canary for a lemma that lives in overlay text: `assert(false);` before the closing brace of its body"""
    txt = open(path).read()
    i = txt.find("proof fn %s(" % lemma)
    if i < 0:
        raise Undecided("lemma canary: %s not found" % lemma)
    j = txt.find("\n{", i)
    depth = 0
    k = j + 1
    while k < len(txt):
        if txt[k] == "{":
            depth += 1
        elif txt[k] == "}":
            depth -= 1
            if depth == 0:
                break
        k += 1
    out = path[:-3] + "_lc_%s.rs" % re.sub(r"\W+", "_", lemma)
    open(out, "w").write(txt[:k] + "    assert(false); /* vacuity canary */\n" + txt[k:])
    return out


def apply_extra_axioms(root, path, preamble_file, groups, suffix):
    """differential re-verification: the same unit with the axiom group(s) of contracts/preamble/<preamble_file> in force"""
    txt = open(path).read()
    extra = open(os.path.join(root, "contracts/preamble", preamble_file)).read()
    i = txt.find("} // mod pre")
    m = re.search(r"^broadcast use (\{[^}]*\}|[A-Za-z_0-9]+);", txt[i:], re.M)
    if i < 0 or not m:
        raise Undecided("differential (%s): unit layout not recognised" % suffix)
    inner = [x.strip() for x in m.group(1).strip("{} ").split(",") if x.strip()]
    for g in groups:
        if g not in inner:
            inner.append(g)
    use = "broadcast use {%s};" % ", ".join(inner)
    txt2 = txt[:i] + extra + "\n" + txt[i:i + m.start()] + use + txt[i + m.end():]
    out = path[:-3] + "_%s.rs" % suffix
    open(out, "w").write(txt2)
    # the source map is keyed by line: lines inside `mod unit` shift by the inserted text
    return out, extra.count("\n") + 1


def verify_unit(root, unit, workdir, rlimit, seed, canary=None, threads=8, flags_off=False, lemma_canary=None, f64_iso=False, exact=False, only_function=None):
    path, mapf = extract_unit(root, unit, workdir, canary=canary, flags_off=flags_off)
    if f64_iso or exact:
        if f64_iso:
            path, shift = apply_extra_axioms(root, path, "f64iso.rs", ["f64_iso_axioms"], "iso")
        else:
            path, shift = apply_extra_axioms(root, path, "exact.rs", ["field_axioms", "exact_arith_axioms"], "exact")
        m = json.load(open(mapf))
        for it in m.get("items", []):
            if it.get("unit_lines"):
                it["unit_lines"] = [it["unit_lines"][0] + shift, it["unit_lines"][1] + shift]
            if it.get("body_first_unit_line") is not None:
                it["body_first_unit_line"] += shift
        mapf = mapf[:-9] + ("_iso" if f64_iso else "_exact") + ".map.json" if mapf.endswith(".map.json") else mapf + ".diff"
        json.dump(m, open(mapf, "w"))
    if lemma_canary:
        path = insert_lemma_canary(path, lemma_canary)
        canary = "lemma:" + lemma_canary
    rc, so, se, dt, cmd = run_verus(path, rlimit, seed, threads=threads, nonlinear=exact, only_function=only_function, timeout=(300 if (exact or f64_iso) else 900))
    r = parse_verus(path, mapf, rc, so, se)
    if r["status"] == "resource" and (exact or f64_iso):
        r["status"] = "undecided"
    if r["status"] == "resource":
        # a budget effect is never a violation: retry once with 5x the budget and another seed
        rc, so, se, dt2, cmd = run_verus(path, rlimit * 5, seed + 1, threads=threads)
        dt += dt2
        r = parse_verus(path, mapf, rc, so, se)
        if r["status"] == "resource":
            r["status"] = "undecided"
    if r["status"] == "fail" and canary is None and not exact and not f64_iso:
        # a failed obligation counts only if it fails under every solver seed tried: an obligation that is discharged under some
        # seed has a proof (unstable, reported as such), and must never raise an alarm
        key = lambda f: (f.get("function"), f.get("message"), f.get("unit_text"))
        stable = {key(f): f for f in r["failures"]}
        flaky = []
        for extra_seed in (seed + 17, seed + 31):
            rc2, so2, se2, dt2, _ = run_verus(path, rlimit * 3, extra_seed, threads=threads, nonlinear=exact, only_function=only_function)
            dt += dt2
            r2 = parse_verus(path, mapf, rc2, so2, se2)
            if r2["status"] == "ok":
                flaky = list(stable.values())
                stable = {}
                break
            if r2["status"] != "fail":
                continue
            k2 = set(key(f) for f in r2["failures"])
            for k in list(stable):
                if k not in k2:
                    flaky.append(stable.pop(k))
            if not stable:
                break
        r["unstable_obligations"] = [{"function": f.get("function"), "message": f.get("message"), "unit_text": f.get("unit_text", "")[:160]} for f in flaky]
        r["failures"] = list(stable.values())
        if not r["failures"]:
            r["status"] = "ok"
            r["errors"] = 0
            r["verified"] = r["verified"] + len(flaky)
    ln = LENIENT_NOTES.get(path if not lemma_canary else None)
    if ln is None:
        for k in list(LENIENT_NOTES):
            if os.path.basename(k)[:-3] in os.path.basename(path):
                ln = LENIENT_NOTES[k]
    if ln is not None:
        r["lenient"] = ln
        if canary is None and r["status"] != "ok":
            raise Undecided("extraction of unit %s failed (rc=2): %s (re-extracted without the orphaned overlay clauses, the unit does not verify: undecided)" % (unit, ln["lost"]))
    r.update({"unit": unit, "path": path, "map": mapf, "wall_s": dt, "cmd": cmd, "canary": canary})
    return r


# ------------------------------------------------------------------------------------------------
# assumption scan
# ------------------------------------------------------------------------------------------------
ASSUME_TOKENS = ["assume(", "admit(", "external_body", "assume_specification", "axiom ", "uninterp ", "external_type_specification",
                 "#[verifier::external", "accept_recursive_types", "exec_allows_no_decreases_clause", "assume_termination"]


def assumption_lines(unit_path):
    """every line of the generated unit that introduces something Verus does not check"""
    out = []
    txt = open(unit_path).read().splitlines()
    for i, l in enumerate(txt):
        s = l.strip()
        if s.startswith("//"):
            continue
        if any(t in s for t in ASSUME_TOKENS):
            # the contract is normally on the same or the following lines; normalise the signature line
            nxt = s
            if s.endswith("]") and i + 1 < len(txt):
                nxt = s + " " + txt[i + 1].strip()
            out.append(re.sub(r"\s+", " ", nxt))
    return out


def load_trusted(root):
    p = os.path.join(root, "contracts/TRUSTED.txt")
    ent = {}
    if os.path.exists(p):
        for l in open(p):
            l = l.rstrip("\n")
            if not l.strip() or l.startswith("#"):
                continue
            if "\t" in l:
                cls, line = l.split("\t", 1)
            else:
                cls, line = "UNCLASSIFIED", l
            ent[line] = cls
    return ent


def classify_assumption(line):
    if "uninterp " in line:
        return "SYMBOL"     # an uninterpreted symbol: adds vocabulary, no facts
    if "axiom " in line:
        return "AXIOM"
    if "assume_specification" in line:
        return "A-LIB"
    if "fn verif_cut" in line:
        return "A-CUT"
    if "external_body" in line or "external" in line:
        return "EXTERNAL"
    return "ASSUME"


# ------------------------------------------------------------------------------------------------
# repository scan used by C17 (reported as a scan, not as a proof)
# ------------------------------------------------------------------------------------------------
STATE_TOKENS = [r"\bunsafe\b", r"\bstatic\s+mut\b", r"\bstatic\s+[A-Z_]+\s*:", r"\bCell<", r"\bRefCell<", r"\bMutex<", r"\bRwLock<", r"\bAtomic[A-Z]\w*",
                r"\bthread_local!", r"\blazy_static!", r"\bOnceCell\b", r"\bOnceLock\b", r"\bLazyLock\b", r"\bLazyCell\b"]


def repo_state_scan():
    hits = []
    src = os.path.join(REPO, "src")
    nfiles = 0
    for fn in sorted(os.listdir(src)):
        if not fn.endswith(".rs"):
            continue
        nfiles += 1
        in_block_comment = False
        for i, l in enumerate(open(os.path.join(src, fn), encoding="utf-8", errors="replace")):
            s = l.split("//")[0]
            for t in STATE_TOKENS:
                if re.search(t, s):
                    hits.append("src/%s:%d: %s" % (fn, i + 1, l.strip()[:120]))
    return nfiles, hits


# ------------------------------------------------------------------------------------------------
# known findings
# ------------------------------------------------------------------------------------------------
def load_findings(root):
    p = os.path.join(root, "known-findings.txt")
    active, fixed = [], []
    if os.path.exists(p):
        for l in open(p):
            l = l.strip()
            if not l or l.startswith("#"):
                continue
            if l.startswith("fixed:"):
                fixed.append(l)
            elif l.startswith("finding:"):
                m = re.match(r"finding:\s+property=(\S+)\s+obligation=(\S+)\s+(.*)", l)
                if m:
                    active.append({"property": m.group(1), "obligation": m.group(2), "what": m.group(3)})
    return active, fixed


# ------------------------------------------------------------------------------------------------
# main
# ------------------------------------------------------------------------------------------------
def clause_count(unit_path, mapf):
    """syntactic count of contract clauses in the extracted (non-preamble) part of the unit"""
    txt = open(unit_path).read()
    i = txt.find("pub mod unit {")
    body = txt[i:] if i >= 0 else txt
    n = {}
    for k, pat in [("requires", r"\brequires\b"), ("ensures", r"\bensures\b"), ("invariant", r"\binvariant\b"),
                   ("decreases", r"\bdecreases\b"), ("assert", r"\bassert\s*(\(|forall)"), ("proof_fn", r"\bproof fn\b"), ("spec_fn", r"\bspec fn\b")]:
        n[k] = len(re.findall(pat, body))
    return n


def main(root, argv):
    if not argv:
        print(__doc__)
        return 2
    if argv[0] == "--replay":
        return replay(root, argv[1])
    if argv[0] == "--rebaseline":
        return rebaseline(root)
    if argv[0] == "--trust-update":
        return trust_update(root)
    pid = argv[0]
    tier = argv[1] if len(argv) > 1 else os.environ.get("VERIF_TIER", "quick")
    seed = int(os.environ.get("VERIF_SEED", "0") or 0)
    try:
        return check_property(root, pid, tier, seed)
    except Undecided as e:
        print("UNDECIDED property=%s reason=%s" % (pid, e))
        return 2


def load_props(root):
    return json.load(open(os.path.join(root, "contracts/properties.json")))


def load_baseline(root):
    p = os.path.join(root, "contracts/OBLIGATIONS.json")
    return json.load(open(p)) if os.path.exists(p) else {}


def all_units(props):
    seen = []
    for p in props.values():
        for u in p.get("units", []):
            if u["unit"] not in seen:
                seen.append(u["unit"])
    return seen


def rebaseline(root):
    props = load_props(root)
    base = {}
    work = os.path.join(root, "work", "baseline")
    for u in all_units(props):
        r = verify_unit(root, u, work, 60, 0)
        if r["status"] != "ok":
            print("unit %s does not verify: %s %s" % (u, r["status"], r.get("reason") or [f["message"] for f in r["failures"]]))
            return 2
        m = json.load(open(r["map"]))
        base[u] = {"functions": sorted(k for k, v in r["functions"].items() if v["success"]),
                   "extracted": sorted(it["name"] for it in m["items"] if it.get("kind") is None),
                   "verified": r["verified"]}
        print("unit %-24s verified=%d functions=%d" % (u, r["verified"], len(base[u]["functions"])))
    json.dump(base, open(os.path.join(root, "contracts/OBLIGATIONS.json"), "w"), indent=1, sort_keys=True)
    return 0


def trust_update(root):
    props = load_props(root)
    work = os.path.join(root, "work", "trust")
    old = load_trusted(root)
    lines = {}
    for u in all_units(props):
        path, _ = extract_unit(root, u, work)
        for l in assumption_lines(path):
            lines[l] = old.get(l) if old.get(l, "UNCLASSIFIED") != "UNCLASSIFIED" else classify_assumption(l)
    with open(os.path.join(root, "contracts/TRUSTED.txt"), "w") as f:
        f.write("# Allow-list of every line of a generated unit that Verus does not check (see DESIGN.md §5).\n")
        f.write("# <class>\\t<normalised line>.  A unit containing an unlisted assumption makes its check exit 2.\n")
        for l in sorted(lines, key=lambda x: (lines[x], x)):
            f.write("%s\t%s\n" % (lines[l], l))
    print("TRUSTED.txt: %d entries" % len(lines))
    return 0


def check_property(root, pid, tier, seed):
    t0 = time.time()
    props = load_props(root)
    if pid not in props:
        print("UNDECIDED property=%s reason=not claimed (see MANIFEST.json not_applicable)" % pid)
        return 2
    P = props[pid]
    base = load_baseline(root)
    trusted = load_trusted(root)
    active_findings, fixed_findings = load_findings(root)
    # a run against a scratch copy (self-test) gets its own work directory
    work = os.path.join(root, "work", pid if REPO == "/repo" else "%s-%s" % (pid, hashlib.md5(REPO.encode()).hexdigest()[:8]))
    shutil.rmtree(work, ignore_errors=True)
    os.makedirs(work, exist_ok=True)
    rlimit = 60 if tier == "quick" else 300
    units = P.get("units", [])
    jobs = []
    # main verification + canaries, in parallel
    with concurrent.futures.ThreadPoolExecutor(max_workers=6) as ex:
        futs = {}
        for u in units:
            futs[ex.submit(verify_unit, root, u["unit"], work, rlimit, seed, None, 6)] = ("main", u, None)
            canaries = u.get("canary", [])
            if isinstance(canaries, str):
                canaries = [canaries]
            if tier == "thorough":
                canaries = list(dict.fromkeys(canaries + u.get("deciding", [])))
            for c in canaries:
                futs[ex.submit(verify_unit, root, u["unit"], work, rlimit, seed, c, 3)] = ("canary", u, c)
            for lc in u.get("lemma_canary", []):
                futs[ex.submit(verify_unit, root, u["unit"], work, rlimit, seed, None, 3, False, lc)] = ("canary", u, "lemma:" + lc)
            if tier == "thorough":
                for s2 in (seed + 1, seed + 2):
                    futs[ex.submit(verify_unit, root, u["unit"], os.path.join(work, "seed%d" % s2), rlimit, s2, None, 3)] = ("seed", u, s2)
        results = []
        for f in concurrent.futures.as_completed(futs):
            kind, u, extra = futs[f]
            try:
                r = f.result()
            except Undecided as e:
                r = {"status": "undecided", "reason": str(e), "unit": u["unit"], "functions": {}, "failures": [], "verified": 0, "errors": 0, "wall_s": 0, "smt_ms": 0, "cmd": "", "canary": extra}
            results.append((kind, u, extra, r))

    undecided = []
    violations = []   # (unit, failure entry)
    known = []
    total_ver = total_err = 0
    smt_ms = 0
    fn_under_contract = []
    rule_counts = {}
    cuts = []
    assumptions_found = {}
    unlisted = []
    clause_counts = {}
    samples = []
    canary_report = []
    unstable_obl = []
    out_of_scope = []
    seeds_report = []
    cmds = []
    for kind, u, extra, r in results:
        if kind == "main":
            cmds.append(r.get("cmd", ""))
            if r["status"] == "undecided":
                undecided.append("unit %s: %s" % (u["unit"], r["reason"]))
                continue
            total_ver += r["verified"]
            total_err += r["errors"]
            smt_ms += r["smt_ms"]
            m = json.load(open(r["map"]))
            for it in m["items"]:
                if it.get("kind") in ("struct", "enum"):
                    continue
                deciding = it["name"] in u.get("deciding", [])
                is_stub = it.get("kind") == "stub"
                fn_under_contract.append({"function": it["name"], "selector": it["selector"], "repo": "%s:%d-%d" % (os.path.relpath(it["repo_file"], REPO), it["repo_lines"][0], it["repo_lines"][1]),
                                          "unit": u["unit"], "carries_property": deciding and not is_stub,
                                          "status": "contract assumed in this unit (generated stub), proved in the callee's own unit" if is_stub else "body verified in this unit",
                                          "loops": it.get("loops"), "closures": it.get("closures")})
                for k, v in it.get("rule_counts", {}).items():
                    rule_counts[k] = rule_counts.get(k, 0) + v
                for c in it.get("cuts", []):
                    c = dict(c)
                    c["statement_sha256"] = hashlib.sha256(c["statement"].encode()).hexdigest()[:16]
                    cuts.append(c)
            for uo in r.get("unstable_obligations", []):
                unstable_obl.append(dict(uo, unit=u["unit"]))
            cc = clause_count(r["path"], r["map"])
            for k, v in cc.items():
                clause_counts[k] = clause_counts.get(k, 0) + v
            for l in assumption_lines(r["path"]):
                cls = trusted.get(l)
                if cls is None:
                    unlisted.append("%s: %s" % (u["unit"], l))
                else:
                    assumptions_found.setdefault(cls, set()).add(l)
            bfun = set(base.get(u["unit"], {}).get("functions", []))
            realigned_fns = {}
            try:
                for it in json.load(open(r["map"])).get("items", []):
                    if it.get("realigned_blocks"):
                        realigned_fns[it.get("name")] = it["realigned_blocks"]
            except Exception:
                pass
            if r["status"] == "fail":
                scope = u.get("scope")
                for fl in r["failures"]:
                    fl["unit"] = u["unit"]
                    # an obligation tagged [Cxx] in the overlay belongs to exactly those properties
                    tags = set(re.findall(r"\[(C\d+)\]", fl.get("unit_text", "") + " " + " ".join(str(l[2]) for l in fl.get("labels", []))))
                    if not tags:
                        # attribution rules of the unit: an exit statement of the real code identifies the clause that fails there
                        alltext = fl.get("unit_text", "") + " " + " ".join(str(l[2]) for l in fl.get("labels", []))
                        for rule in ATTRIBUTION.get(u["unit"], []):
                            if re.search(rule["regex"], alltext):
                                tags |= set(rule["tags"])
                    fl["tags"] = sorted(tags)
                    if tags and pid not in tags:
                        out_of_scope.append("%s::%s — %s [tagged %s]" % (u["unit"], fl.get("function"), fl["message"], ",".join(sorted(tags))))
                        continue
                    if not tags and (P.get("tag_only") or u.get("tag_only") or fl.get("function") in (u.get("tag_only_functions") or [])):
                        out_of_scope.append("%s::%s — %s [untagged; this property is raised only by obligations tagged %s]" % (u["unit"], fl.get("function"), fl["message"], pid))
                        continue
                    if not tags and scope is not None and fl.get("function") is not None and fl.get("function") not in scope:
                        # a function of this unit that carries another property: not this property's obligation
                        out_of_scope.append("%s::%s — %s" % (u["unit"], fl.get("function"), fl["message"]))
                        continue
                    # A function whose statements had to be re-anchored (inserted / moved / removed statements) or whose overlay lost
                    # clauses (lenient extraction) may fail obligations only because a proof hint now sits in the wrong place: a hint
                    # assertion, a loop invariant, a bounds / overflow side condition of the standard library.  In such a function only
                    # CONTRACT clauses decide: postconditions, property-tagged assertions, closure postconditions, and preconditions of
                    # functions of /repo (incl. the unreachable-panic marker).  Everything else is undecided - never an alarm.
                    restructured = bool(realigned_fns.get(fl.get("function"))) or bool(r.get("lenient"))
                    if restructured and not fl.get("kani"):
                        msg0 = fl.get("message", "")
                        rend = fl.get("rendered", "")
                        lib_pre = msg0.startswith("precondition not satisfied") and re.search(r"-->\s+(std_specs|vstd|[^\n]*/vstd/)", rend.split("\n", 3)[-1] if rend.count("\n") >= 3 else rend) is not None
                        is_contract = (msg0.startswith("postcondition not satisfied") or bool(tags) or "post-condition of closure" in msg0
                                       or (msg0.startswith("precondition not satisfied") and not lib_pre))
                        if not is_contract:
                            undecided.append("unit %s: %s in %s, whose statements were re-anchored after an edit (%s): a proof hint may merely sit in the wrong place — undecided" % (
                                u["unit"], msg0, fl.get("function"), "lenient extraction" if r.get("lenient") else ",".join(realigned_fns.get(fl.get("function")) or [])))
                            continue
                    if fl.get("function") is None and not fl.get("kani"):
                        # the failing obligation lies in overlay text that is not extracted from /repo (a lemma or a spec function):
                        # no edit of /repo can falsify it, so this is solver instability, never a violation
                        undecided.append("unit %s: proof of a code-independent lemma failed (solver instability, unit line %s: %s): %s" % (u["unit"], fl.get("unit_line"), fl.get("unit_text", "")[:100], fl["message"]))
                        continue
                    # which Verus function failed? use the breakdown (success=false) restricted to the located item
                    failed_fns = [k for k, v in r["functions"].items() if not v["success"]]
                    fl["failed_functions"] = failed_fns
                    in_base = any(k in bfun for k in failed_fns) if failed_fns else (fl.get("function") is not None)
                    obl = "%s::%s" % (u["unit"], fl.get("function") or "?")
                    kf = [a for a in active_findings if a["property"] == pid and a["obligation"] == obl]
                    if kf:
                        known.append((kf[0], fl))
                    elif in_base:
                        violations.append(fl)
                    else:
                        undecided.append("unit %s: obligation of %s fails but is not in the committed baseline (never discharged): %s" % (u["unit"], fl.get("function"), fl["message"]))
            else:
                # every baseline function must still be present and verified
                missing = [k for k in bfun if k not in r["functions"]]
                if missing:
                    undecided.append("unit %s: baseline functions no longer reported by Verus: %s" % (u["unit"], missing))
            dec = u.get("deciding", [])
            for k, v in sorted(r["functions"].items(), key=lambda kv: (0 if kv[0].split("::")[-1] in dec else 1, kv[0])):
                if v["mode"] in ("exec", "proof") and len(samples) < 16:
                    samples.append({"obligation": "%s::%s" % (u["unit"], k), "mode": v["mode"], "discharged": v["success"], "smt_ms": v["ms"], "rlimit": v["rlimit"]})
        elif kind == "canary":
            # the canary appends assert(false) to the body: it MUST fail with exactly an assertion failure
            ok = r["status"] == "fail" and any("assertion failed" in f["message"] for f in r["failures"])
            canary_report.append({"unit": u["unit"], "function": extra, "refuted_as_expected": ok, "status": r["status"]})
            if not ok and r["status"] != "undecided":
                undecided.append("vacuity canary: assert(false) at the end of %s::%s was NOT refuted (status %s)" % (u["unit"], extra, r["status"]))
            elif r["status"] == "undecided":
                undecided.append("vacuity canary for %s::%s undecided: %s" % (u["unit"], extra, r.get("reason")))
        elif kind == "seed":
            seeds_report.append({"unit": u["unit"], "seed": extra, "status": r["status"]})

    # unstable proofs (pass on one seed only) are reported, not alarmed
    unstable = [s for s in seeds_report if s["status"] != "ok"]

    # C17 differential: an obligation that fails with arbitrary debug flags but is discharged when both flags are assumed off
    # is a result that depends on print_debug_info / return_metadata
    diff_report = []
    for du in P.get("differential_flags", []):
        try:
            rn = verify_unit(root, du["unit"], os.path.join(work, "diff"), rlimit, seed)
        except Undecided as e:
            undecided.append("flag differential, unit %s: %s" % (du["unit"], e))
            continue
        cmds.append(rn.get("cmd", ""))
        if rn["status"] == "undecided":
            undecided.append("flag differential, unit %s: %s" % (du["unit"], rn["reason"]))
            continue
        total_ver += rn["verified"]
        fails = [f for f in rn["failures"] if f.get("function") in du.get("scope", [])] if rn["status"] == "fail" else []
        entry = {"unit": du["unit"], "scope": du.get("scope", []), "failed_with_arbitrary_flags": len(fails), "flag_dependent": 0}
        if fails:
            ro = verify_unit(root, du["unit"], os.path.join(work, "diff"), rlimit, seed, flags_off=True)
            if ro["status"] == "undecided":
                undecided.append("flag differential (flags off), unit %s: %s" % (du["unit"], ro["reason"]))
            else:
                key = lambda f: (f.get("function"), f.get("message"), f.get("unit_text"))
                off = set(key(f) for f in ro["failures"]) if ro["status"] == "fail" else set()
                for f in fails:
                    if key(f) not in off:
                        f = dict(f)
                        f["unit"] = du["unit"]
                        f["message"] = "result depends on a debug flag: this obligation fails for arbitrary print_debug_info / return_metadata and is discharged when both are off — " + f["message"]
                        violations.append(f)
                        total_err += 1
                        entry["flag_dependent"] += 1
        diff_report.append(entry)

    # Exact-arithmetic differential (properties stated up to a rounding tolerance): a Verus violation of this property that is
    # discharged when the scalar is read as a real number (field axioms + injectivity of val) is the same real value computed by a
    # different association / distribution: a rounding-level change, which the property allows. It is removed from the violations.
    rounding_only = []
    if P.get("differential_exact") and any(not v.get("kani") for v in violations):
        exact_units = set(du["unit"] for du in P["differential_exact"])
        by_unit = {}
        for v in violations:
            if not v.get("kani") and v.get("unit") in exact_units:
                by_unit.setdefault(v["unit"], []).append(v)
        for uname, vs in by_unit.items():
            key = lambda f: (f.get("function"), f.get("message"), f.get("unit_text"))
            still = set()
            looked = set()
            for fn in sorted(set(v.get("function") for v in vs if v.get("function"))):
                try:
                    rx = verify_unit(root, uname, os.path.join(work, "exact"), rlimit, seed, exact=True, only_function=fn)
                except Undecided:
                    continue
                if rx["status"] == "undecided":
                    continue
                looked.add(fn)
                if rx["status"] == "fail":
                    still |= set(key(f) for f in rx["failures"])
            for v in vs:
                if v.get("function") in looked and key(v) not in still:
                    violations.remove(v)
                    total_err -= 1
                    total_ver += 1
                    rounding_only.append({"unit": uname, "function": v.get("function"), "obligation": v.get("unit_text", "")[:200], "message": v.get("message")})

    # C19 differential: an obligation that fails for an abstract scalar but is discharged once `from_f64` / `to_f64` are assumed to be
    # mutually inverse and to commute with every trait operation (i.e. "if T were f64") is code that is right for f64 only: it takes a
    # shortcut through f64 arithmetic or f64 constants, which is what C19 forbids
    iso_report = []
    for du in P.get("differential_f64_iso", []):
        try:
            rn = verify_unit(root, du["unit"], os.path.join(work, "iso"), rlimit, seed)
        except Undecided as e:
            undecided.append("f64-iso differential, unit %s: %s" % (du["unit"], e))
            continue
        if rn["status"] == "undecided":
            undecided.append("f64-iso differential, unit %s: %s" % (du["unit"], rn["reason"]))
            continue
        fails = [f for f in rn["failures"] if f.get("function") is not None] if rn["status"] == "fail" else []
        entry = {"unit": du["unit"], "failed_for_an_abstract_scalar": len(fails), "discharged_if_T_were_f64": 0}
        if fails:
            try:
                ro = verify_unit(root, du["unit"], os.path.join(work, "iso"), rlimit, seed, f64_iso=True)
            except Undecided as e:
                undecided.append("f64-iso differential (axioms on), unit %s: %s" % (du["unit"], e))
                ro = None
            if ro is not None and ro["status"] == "undecided":
                undecided.append("f64-iso differential (axioms on), unit %s: %s" % (du["unit"], ro["reason"]))
            elif ro is not None:
                key = lambda f: (f.get("function"), f.get("message"), f.get("unit_text"))
                on = set(key(f) for f in ro["failures"]) if ro["status"] == "fail" else set()
                for f in fails:
                    if key(f) not in on and "narrowing_allowed" not in f.get("unit_text", ""):
                        f = dict(f)
                        f["unit"] = du["unit"]
                        f["message"] = "right for T = f64 only (a shortcut through f64 arithmetic / constants): this obligation fails for an abstract scalar and is discharged once from_f64/to_f64 are assumed to be an isomorphism — " + f["message"]
                        violations.append(f)
                        total_err += 1
                        entry["discharged_if_T_were_f64"] += 1
        iso_report.append(entry)

    # Kani stand-ins
    kani_report = []
    if P.get("kani"):
        from vkani import run_kani_for
        kr = run_kani_for(root, pid, P["kani"], tier, seed, work)
        kani_report = kr["harnesses"]
        for h in kr["harnesses"]:
            if h["status"] == "fail":
                violations.append({"unit": "kani", "function": h["harness"], "message": "Kani refuted harness %s: %s" % (h["harness"], h.get("failed_checks", "")[:400]),
                                   "rendered": h.get("trace", "")[:4000], "kani": True, "concrete": h.get("concrete")})
            elif h["status"] == "undecided":
                undecided.append("kani harness %s: %s" % (h["harness"], h.get("reason", "")))

    scan = None
    if P.get("scan_repo_state"):
        nfiles, hits = repo_state_scan()
        allowed = P.get("scan_allow", [])
        bad = [h for h in hits if not any(a in h for a in allowed)]
        scan = {"files": nfiles, "hits": hits, "unexpected": bad}
        if bad:
            violations.append({"unit": "scan", "function": "repo_state_scan", "message": "mutable global / interior-mutable state introduced in /repo/src: %s" % bad[:5], "rendered": "\n".join(bad)})

    if unlisted:
        undecided.append("unlisted assumption(s) in generated unit (not in contracts/TRUSTED.txt): %s" % unlisted[:5])

    wall = time.time() - t0
    # ---- evidence ----------------------------------------------------------------------------------
    level = P.get("level", "proof")
    # Verus' own error count is unit-wide; failed obligations that belong to another property of a shared unit are not counted here
    obligations = total_ver + (total_err if not out_of_scope else len([v for v in violations if not v.get("kani")]) + len(known))
    discharged = total_ver
    n_canary_ok = sum(1 for c in canary_report if c["refuted_as_expected"])
    trusted_base = ["rustc 1.98.1 / Verus 0.2026.09.13 / Z3 (bundled)", "mtx extractor rules R1-R18 (DESIGN.md §2)"] + P.get("assumptions", [])
    if kani_report:
        trusted_base.append("Kani 0.68 / CBMC 6.11 (bounded components listed under coverage.kani)")
    ev = {
        "property_id": pid,
        "tier": tier,
        "seed": seed,
        "level": level,
        "coverage": {
            "obligations": obligations,
            "discharged": discharged,
            "checker_cmd": " && ".join(c for c in cmds if c) or "(no Verus unit)",
            "trusted_base": trusted_base,
            "explanation": P.get("explanation", ""),
            "back_end": "Verus -> Z3 (bundled with Verus); obligations = Verus verification queries (function bodies, loop bodies, lemmas) of the listed units",
            "layers": P.get("layers"),
            "functions_under_contract": fn_under_contract,
            "contract_clauses": clause_counts,
            "samples": samples or [{"note": "no Verus obligation in this tier"}],
            "solver_ms": smt_ms,
            "rlimit": rlimit,
            "extraction_rule_applications": rule_counts,
            "statement_cuts": cuts,
            "vacuity_canaries": canary_report,
            "seed_stability": seeds_report,
            "unstable": unstable,
            "unstable_obligations_discharged_under_another_seed": unstable_obl,
            "kani": kani_report,
            "debug_flag_differential": diff_report,
            "f64_isomorphism_differential": iso_report,
            "rounding_level_changes_accepted_by_the_exact_arithmetic_differential": rounding_only,
            "repo_state_scan": scan,
            "assumption_lines": {k: len(v) for k, v in assumptions_found.items()},
            "not_decided": P.get("not_decided", []),
            "undecided": undecided,
            "overlay_clauses_dropped_by_lenient_extraction": [{"unit_file": os.path.basename(k), **v} for k, v in sorted(LENIENT_NOTES.items())],
            "failed_obligations_of_other_properties_in_shared_units": out_of_scope,
            "known_findings_fixed": [f for f in fixed_findings if ("property=%s " % pid) in f],
            "repo": REPO,
        },
        "assumptions": P.get("assumptions", []) + ["%s: %d line(s) in the generated unit(s)" % (k, len(v)) for k, v in sorted(assumptions_found.items())],
        "wall_s": round(wall, 2),
        "violations": len(violations),
    }
    if level != "proof":
        # bounded components: count harness checks
        ev["coverage"]["states"] = max(1, sum(h.get("checks", 0) for h in kani_report))
        ev["coverage"]["transitions"] = max(1, sum(h.get("checks", 0) for h in kani_report))
        ev["coverage"]["traces_validated_against_impl"] = sum(1 for h in kani_report if h["status"] == "ok")
        ev["coverage"]["evaluations"] = max(1, obligations + len(kani_report))
        ev["coverage"]["distinct_nontrivial"] = max(2, len(kani_report) + len(fn_under_contract))
    evdir = os.environ.get("VERIF_EVIDENCE_DIR", os.path.join(root, "evidence"))   # the self-test redirects its evidence
    os.makedirs(evdir, exist_ok=True)
    evp = os.path.join(evdir, pid + ".json")
    for k, f in known:
        print("KNOWN-FINDING: property=%s %s" % (pid, k["what"]))
    rc = 0
    if violations:
        os.makedirs(os.path.join(root, "work", "replay"), exist_ok=True)
        rp = os.path.join(root, "work", "replay", "%s-%d.json" % (pid, int(time.time())))
        rep = {"property_id": pid, "tier": tier, "seed": seed, "repo": REPO,
               "failed_obligations": [{k: v for k, v in fl.items()} for fl in violations],
               "note": "Verus yields no counterexample; the failed obligation is named by unit, function and clause with the verifier output attached."}
        concrete = [fl for fl in violations if fl.get("concrete")]
        json.dump(rep, open(rp, "w"), indent=1, default=str)
        for fl in violations[:6]:
            log("FAILED-OBLIGATION %s::%s — %s  [%s:%s]  %s" % (fl.get("unit"), fl.get("function"), fl["message"], fl.get("repo_file"), fl.get("repo_line"), fl.get("unit_text", "")[:160]))
        print("VIOLATION property=%s replay=%s%s" % (pid, rp, "" if concrete else " no-failing-input-found"))
        ev["coverage"]["replay"] = rp
        rc = 1
    elif undecided:
        for u in undecided:
            print("UNDECIDED property=%s %s" % (pid, u[:1200]))
        rc = 2
    json.dump(ev, open(evp, "w"), indent=1, default=str)
    if rc == 0:
        print("OK property=%s tier=%s obligations=%d discharged=%d canaries=%d/%d kani=%d wall=%.1fs" % (
            pid, tier, obligations, discharged, n_canary_ok, len(canary_report), len(kani_report), wall))
    return rc


def replay(root, path):
    rep = json.load(open(path))
    pid = rep["property_id"]
    props = load_props(root)
    P = props[pid]
    work = os.path.join(root, "work", "replay-run")
    shutil.rmtree(work, ignore_errors=True)
    still = []
    for fo in rep["failed_obligations"]:
        if fo.get("kani"):
            from vkani import run_kani_for
            kr = run_kani_for(root, pid, [k for k in P.get("kani", []) if k["harness"] == fo["function"]], "thorough", rep.get("seed", 0), work)
            if any(h["status"] == "fail" for h in kr["harnesses"]):
                still.append(fo)
            continue
        if fo.get("unit") in ("scan",):
            nfiles, hits = repo_state_scan()
            if [h for h in hits if not any(a in h for a in P.get("scan_allow", []))]:
                still.append(fo)
            continue
        try:
            r = verify_unit(root, fo["unit"], work, 300, rep.get("seed", 0))
        except Undecided as e:
            print("UNDECIDED replay: %s" % e)
            return 2
        same = [f for f in r["failures"] if f.get("function") == fo.get("function") and f["message"] == fo["message"]]
        if r["status"] == "fail" and same:
            still.append(fo)
            print("REPLAY: obligation still fails: %s::%s — %s (repo %s:%s)" % (fo["unit"], fo.get("function"), fo["message"], fo.get("repo_file"), fo.get("repo_line")))
            print(same[0].get("rendered", ""))
    if still:
        print("VIOLATION property=%s replay=%s no-failing-input-found" % (pid, path))
        return 1
    print("REPLAY: recorded obligations are discharged on the current tree")
    return 0
