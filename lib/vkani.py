"""Kani runner: bounded stand-ins and loop-free complete harnesses on the REAL compiled functions.

A scratch copy of /repo is made outside /repo and /verif, one `#[cfg(kani)] #[path=...] mod verif_kani;` line is appended
per module, `cargo kani` runs, and the scratch copy (with its target/) is deleted.  /repo itself is never modified.
"""
import os, re, shutil, subprocess, tempfile, time, json

REPO = os.environ.get("VERIF_REPO", "/repo")


def run_group(cmd, cwd, env, tmo):
    """run in its own process group with an address-space cap; on timeout kill the whole group (cbmc children included)"""
    import signal, resource
    def pre():
        os.setsid()
        cap = 24 * 1024 ** 3
        resource.setrlimit(resource.RLIMIT_AS, (cap, cap))
    p = subprocess.Popen(cmd, cwd=cwd, env=env, stdout=subprocess.PIPE, stderr=subprocess.STDOUT, preexec_fn=pre)
    try:
        out, _ = p.communicate(timeout=tmo)
        return out.decode("utf-8", "replace"), p.returncode
    except subprocess.TimeoutExpired:
        try:
            os.killpg(p.pid, signal.SIGKILL)
        except Exception:
            pass
        out, _ = p.communicate()
        return out.decode("utf-8", "replace") + "\nTIMEOUT", 124


def run_kani_for(root, pid, specs, tier, seed, work):
    sel = [s for s in specs if tier == "thorough" or s.get("tier", "quick") == "quick"]
    out = {"harnesses": []}
    if not sel:
        return out
    scratch = tempfile.mkdtemp(prefix="verif-kani-%s-" % pid, dir="/tmp")
    try:
        subprocess.run(["rsync", "-a", "--exclude", "target", "--exclude", ".git", REPO + "/", scratch + "/"], check=True)
        # one harness file per (module, file): kani/<file>_harness.rs is appended to src/<module>.rs as a child module
        mods = sorted(set((s["module"], s.get("file", s["module"])) for s in sel if not s.get("cut")))
        for m, hf in mods:
            with open(os.path.join(scratch, "src", m + ".rs"), "a") as f:
                f.write('\n#[cfg(kani)]\n#[path = "%s/kani/%s_harness.rs"]\nmod verif_kani%s;\n' % (root, hf, "" if hf == m else "_" + hf))
        # statement cuts (R10): render the harness from the statement text that mtx extracts from /repo on this run
        for sp in sel:
            c = sp.get("cut")
            if not c:
                continue
            mapf = os.path.join(work, "cut-%s.map.json" % c["name"])
            rc0 = subprocess.run([os.path.join(root, "mtx/target/release/mtx"), os.path.join(root, "contracts/units", c["unit"] + ".vspec"), "--repo", REPO,
                                  "--out", os.path.join(work, "cut-%s.rs" % c["name"]), "--map", mapf, "--contracts", os.path.join(root, "contracts")],
                                 stdout=subprocess.PIPE, stderr=subprocess.PIPE)
            stmt = None
            if rc0.returncode == 0:
                for it in json.load(open(mapf)).get("items", []):
                    for cc in it.get("cuts", []):
                        if cc.get("name") == c["name"]:
                            stmt = cc["statement"]
            if stmt is None:
                out["harnesses"].append({"harness": sp["harness"], "module": sp["module"], "status": "undecided", "reason": "lost anchor: statement cut %s not found (%s)" % (c["name"], rc0.stderr.decode()[:200])})
                sp["_skip"] = True
                continue
            tmpl = open(os.path.join(root, c["template"])).read().replace("@STATEMENT@", stmt)
            hp = os.path.join(scratch, "verif_cut_%s.rs" % c["name"])
            open(hp, "w").write(tmpl)
            with open(os.path.join(scratch, "src", sp["module"] + ".rs"), "a") as f:
                f.write('\n#[cfg(kani)]\n#[path = "%s"]\nmod verif_kani_cut_%s;\n' % (hp, c["name"]))
        sel = [x for x in sel if not x.get("_skip")]
        if not sel:
            return out
        env = dict(os.environ)
        env["CARGO_NET_OFFLINE"] = "true"
        env["CARGO_TARGET_DIR"] = os.path.join(scratch, "target")
        cmd = ["cargo", "kani", "-Z", "stubbing", "-Z", "function-contracts", "--output-format", "terse", "-j", "8"]
        for s in sel:
            cmd += ["--harness", s["harness"]]
        tmo = max(s.get("timeout", 900) for s in sel)
        t0 = time.time()
        txt, rc = run_group(cmd, scratch, env, tmo)
        dt = time.time() - t0
        with open(os.path.join(work, "kani-%s.log" % pid), "w") as f:
            f.write(" ".join(cmd) + "\n" + txt)
        # split per harness
        seen = {}
        if re.search(r"^Thread \d+: ", txt, re.M):
            # parallel mode: "Thread N: Checking harness X..." announces, a later "Thread N: <result block>" reports
            cur = {}
            parts = re.split(r"^Thread (\d+): ", txt, flags=re.M)
            for k in range(1, len(parts), 2):
                tid, body = parts[k], parts[k + 1]
                m = re.match(r"Checking harness (\S+?)\.\.\.", body)
                if m:
                    cur[tid] = m.group(1).split("::")[-1]
                    rest = body[m.end():]
                    if "VERIFICATION" in rest:
                        seen[cur[tid]] = seen.get(cur[tid], "") + rest
                elif tid in cur:
                    seen[cur[tid]] = seen.get(cur[tid], "") + body
        else:
            blocks = re.split(r"Checking harness ", txt)
            for b in blocks[1:]:
                name = b.split("...")[0].strip().split("::")[-1]
                seen[name] = b
        for s in sel:
            h = {"harness": s["harness"], "module": s["module"], "bound": s.get("bound", ""), "complete": bool(s.get("complete")),
                 "wall_s": round(dt, 1), "cmd": " ".join(cmd)}
            b = seen.get(s["harness"])
            if b is None:
                h["status"] = "undecided"
                h["reason"] = "harness not run (build error, lost anchor or timeout): " + txt[-600:].replace("\n", " | ")
            else:
                m = re.search(r"\*\* (\d+) of (\d+) failed", b)
                h["checks"] = int(m.group(2)) if m else 0
                cov = re.findall(r"\*\* (\d+) of (\d+) cover properties satisfied", b)
                if cov:
                    h["covers_satisfied"] = "%s/%s" % cov[0]
                if "VERIFICATION:- SUCCESSFUL" in b:
                    h["status"] = "ok"
                    if cov and cov[0][0] != cov[0][1]:
                        h["status"] = "undecided"
                        h["reason"] = "vacuity: a cover goal is unreachable"
                elif "VERIFICATION:- FAILED" in b:
                    failed = re.findall(r"Failed Checks: (.*)", b)
                    h["failed_checks"] = "; ".join(failed)[:1500]
                    # unwinding / unsupported-feature failures are not violations
                    if not failed:
                        # FAILED without a failed check: an unwinding bound or an unsupported construct was hit — a limit of the harness, never a violation
                        h["status"] = "undecided"
                        h["reason"] = "Kani reports FAILED without a failed check (unwinding bound or unsupported construct reached)"
                    elif any(("unwinding assertion" in f) or ("not supported" in f.lower()) or ("unsupported" in f.lower()) for f in failed) and not any(("assertion failed" in f) for f in failed):
                        h["status"] = "undecided"
                        h["reason"] = "bound / unsupported construct: " + h["failed_checks"][:300]
                    elif s.get("only") and not any(re.search(s["only"], f) for f in failed):
                        # the harness is shared with another property: none of the failed checks is one this property is about
                        h["status"] = "ok"
                        h["note"] = "failed checks belong to another property (filter %r): %s" % (s["only"], h["failed_checks"][:300])
                    else:
                        h["status"] = "fail"
                        h["trace"] = b[-3000:]
                else:
                    h["status"] = "undecided"
                    h["reason"] = "no verdict: " + b[-400:].replace("\n", " | ")
            out["harnesses"].append(h)
        # a refuted harness: ask CBMC for the concrete input (Kani prints it as a unit test) — this is the replayable witness
        failed = [h for h in out["harnesses"] if h["status"] == "fail"]
        if failed:
            h = failed[0]
            cmd2 = ["cargo", "kani", "-Z", "stubbing", "-Z", "function-contracts", "-Z", "concrete-playback", "--concrete-playback=print",
                    "--output-format", "terse", "--harness", h["harness"]]
            t2, _ = run_group(cmd2, scratch, env, tmo)
            m = re.search(r"Concrete playback unit test for `[^`]*`:\s*```(.*?)```", t2, re.S)
            if m:
                h["concrete"] = m.group(1).strip()[:6000]
    finally:
        shutil.rmtree(scratch, ignore_errors=True)
    return out


if __name__ == "__main__":
    import sys
    root = os.path.dirname(os.path.dirname(os.path.abspath(__file__)))
    props = json.load(open(os.path.join(root, "contracts/properties.json")))
    pid = sys.argv[1]
    os.makedirs(os.path.join(root, "work", pid), exist_ok=True)
    r = run_kani_for(root, pid, props[pid].get("kani", []), sys.argv[2] if len(sys.argv) > 2 else "quick", 0, os.path.join(root, "work", pid))
    print(json.dumps(r, indent=1)[:6000])
