#!/bin/bash
# Regression of the machinery against the independent seeded changes: each patch is applied to a scratch copy of /repo
# (never to /repo itself) and the check of its property must report a VIOLATION (exit 1).  Exceptions are listed below.
cd "$(dirname "$0")/.." || exit 2
out=${SELFTEST_OUT:-seeded/SELFTEST.txt}; : > $out   # SELFTEST_FILTER=<regex on the change name> runs a part of the list (to split the work)
declare -A expect; expect[C12-2]=0     # inside inverse_gamma_lr_impl (uninterpreted): not detectable by this technique
expect[C09-4]=2; expect[C17-3]=2; expect[C17-7]=2; expect[C04-1]=2     # restructured `sample`: overlays lose their anchors and no bounded stand-in reaches `sample` -> undecided (exit 2), never an alarm
# inside unverified callees (graph search / weight sum: uninterpreted functions, C03 not applicable): not detectable, exit 0
expect[C05-6]=2; expect[C17-6]=0
# restructured-function rule: a moved `break` leaves only a misplaced proof hint failing -> undecided in the quick tier (thorough: Kani perm_e2)
expect[C07-2]=2; expect[C07-6]=2
# round 4
expect[C06-7]=2; expect[C11-7]=2; expect[C20-5]=2      # restructured / unknown callee: undecided
expect[C07-7]=0; expect[C12-3]=0   # rejected under another property's check only (C03/C05: undecided there) / out of reach (C12-3)
# round 5
expect[C05-8]=2; expect[C10-8]=2; expect[C16-9]=2      # type of the vertex set changed / series and norm loops rewritten: overlays lose their anchors -> undecided
bad=0
for d in seeded/C*-*/; do
  n=$(basename $d); id=${n%-*}
  if [ -n "$SELFTEST_FILTER" ] && ! [[ $n =~ $SELFTEST_FILTER ]]; then continue; fi
  scratch=$(mktemp -d /tmp/verif-selftest-XXXX)
  rsync -a --exclude target --exclude .git ${VERIF_BASE_REPO:-/repo}/ $scratch/
  if ! (cd $scratch && patch -s -p1 < /verif/$d/patch.diff); then echo "$n APPLY-FAILED" >> $out; rm -rf $scratch; bad=1; continue; fi
  VERIF_REPO=$scratch VERIF_EVIDENCE_DIR=/tmp/verif-selftest-evidence ./check $id quick > /tmp/selftest.$n.log 2>&1; rc=$?
  want=${expect[$n]:-1}
  verdict=$(grep -E "^(VIOLATION|OK|UNDECIDED)" /tmp/selftest.$n.log | head -1 | cut -c1-60)
  first=$(grep -E "^FAILED-OBLIGATION" /tmp/selftest.$n.log | head -1 | cut -c1-150)
  if [ "$rc" = "$want" ]; then s=as-expected; else s=UNEXPECTED; bad=1; fi
  echo "$n exit=$rc expected=$want $s | $verdict | $first" >> $out
  rm -rf $scratch /tmp/selftest.$n.log
done
# restore evidence of the unchanged tree for the properties touched
echo "DONE bad=$bad" >> $out
exit $bad
