//! mtx — mechanical extractor: /repo/src/*.rs  ->  one Verus unit file.
//!
//! The extractor never stores function bodies.  On every run it parses the repository file with `syn`,
//! selects the items named in the unit description (`*.vspec`), and copies their *source text* into the
//! unit, applying only span-local text edits (rules R1..R11, see DESIGN.md §2.1) and inserting the
//! overlay clauses (requires / ensures / invariants / proof blocks) at structural anchors.
//! Every edit is recorded (rule, repo line) in the source map that the driver turns into evidence.
//!
//! exit 0: unit written.  exit 2: lost anchor / unsupported construct / bad vspec (never a violation).

use proc_macro2::{LineColumn, Span, TokenTree};
use quote::ToTokens;
use std::collections::{BTreeMap, HashMap, HashSet};
use std::fs;
use syn::spanned::Spanned;

static FLAGS_OFF: std::sync::atomic::AtomicBool = std::sync::atomic::AtomicBool::new(false);
/// `--lenient`: an overlay clause (proof hint, loop invariant, closure annotation) whose anchor no longer exists is DROPPED instead of
/// stopping the extraction.  The contracts (`@spec`) are never dropped, so a unit extracted this way that still verifies has proved
/// the same contracts; one that does not is reported by the driver as undecided (lost anchor), never as a violation.
static LENIENT: std::sync::atomic::AtomicBool = std::sync::atomic::AtomicBool::new(false);
fn soft(msg: &str) {
    if LENIENT.load(std::sync::atomic::Ordering::Relaxed) {
        eprintln!("MTX-LENIENT: {}", msg);
    } else {
        die(msg);
    }
}

fn die(msg: &str) -> ! {
    eprintln!("MTX-ERROR: {}", msg);
    std::process::exit(2);
}

// ---------------------------------------------------------------------------------------------
// source text + spans
// ---------------------------------------------------------------------------------------------
struct Src {
    path: String,
    text: String,
    line_starts: Vec<usize>,
}
impl Src {
    fn load(path: &str) -> Src {
        let text = fs::read_to_string(path).unwrap_or_else(|e| die(&format!("cannot read {}: {}", path, e)));
        let mut line_starts = vec![0usize];
        for (i, b) in text.bytes().enumerate() {
            if b == b'\n' {
                line_starts.push(i + 1);
            }
        }
        Src { path: path.to_string(), text, line_starts }
    }
    fn off(&self, lc: LineColumn) -> usize {
        let ls = self.line_starts[lc.line - 1];
        let mut b = 0usize;
        for (c, ch) in self.text[ls..].chars().enumerate() {
            if c == lc.column {
                break;
            }
            b += ch.len_utf8();
        }
        ls + b
    }
    fn range(&self, sp: Span) -> (usize, usize) {
        (self.off(sp.start()), self.off(sp.end()))
    }
    fn slice(&self, sp: Span) -> &str {
        let (a, b) = self.range(sp);
        &self.text[a..b]
    }
    fn line_of(&self, off: usize) -> usize {
        match self.line_starts.binary_search(&off) {
            Ok(i) => i + 1,
            Err(i) => i,
        }
    }
}

#[derive(Clone, Debug)]
struct Edit {
    start: usize,
    end: usize,
    text: String,
    rank: i32,  // 0 closers, 1 openers/overlay, 2 replacements
    order: i64, // closers: inner first (desc depth => -depth); openers: outer first (asc depth)
    rule: &'static str,
}

// ---------------------------------------------------------------------------------------------
// vspec
// ---------------------------------------------------------------------------------------------
#[derive(Default, Debug, Clone)]
struct ClosureOv {
    types: Vec<String>,
    ret: Option<String>,
    spec: String,
}
#[derive(Default, Debug, Clone)]
struct CutOv {
    anchor: String,
    name: String,
    call: String,
    sig: String,
    spec: String,
    tail: String,
}
#[derive(Default, Debug, Clone)]
struct FnOverlay {
    ret: Option<String>,
    spec: String,
    at: BTreeMap<String, String>,
    closures: BTreeMap<String, ClosureOv>,
    cuts: Vec<CutOv>,
    prim: HashMap<String, String>,
    expect: HashMap<String, usize>,
    opts: HashMap<String, String>,
    drop_stmts: Vec<String>,
    folds: BTreeMap<String, String>,
    shapes: HashMap<String, Vec<String>>,
    /// `@params a b c`: the parameter names the contract is written over (positional, receiver excluded)
    params: Vec<String>,
}
#[derive(Debug)]
enum Directive {
    Verbatim(String),
    Include(String),
    Struct { file: String, name: String, opts: HashMap<String, String> },
    Extract { file: String, selector: String, ov: FnOverlay, line: usize, stub: bool },
}

fn parse_vspec(path: &str) -> (String, Vec<Directive>) {
    let text = fs::read_to_string(path).unwrap_or_else(|e| die(&format!("cannot read vspec {}: {}", path, e)));
    let lines: Vec<&str> = text.lines().collect();
    let mut unit = String::from("unit");
    let mut out = Vec::new();
    let mut i = 0;
    // collects raw lines until the next line starting with '@'
    fn body<'a>(lines: &[&'a str], i: &mut usize) -> String {
        let mut s = String::new();
        while *i < lines.len() && !lines[*i].starts_with('@') {
            // `# ...` in column 0 is a vspec comment (Verus attributes start with `#[`)
            if !(lines[*i].starts_with("# ") || lines[*i] == "#") {
                s.push_str(lines[*i]);
                s.push('\n');
            }
            *i += 1;
        }
        s
    }
    while i < lines.len() {
        let l = lines[i];
        if !l.starts_with('@') {
            if l.trim().is_empty() || l.trim_start().starts_with('#') {
                i += 1;
                continue;
            }
            die(&format!("{}:{}: text outside a directive: {}", path, i + 1, l));
        }
        let mut it = l.splitn(2, char::is_whitespace);
        let d = it.next().unwrap();
        let rest = it.next().unwrap_or("").trim();
        i += 1;
        match d {
            "@unit" => unit = rest.to_string(),
            "@use-stubs" => {
                // the callee contracts of another fragment, assumed here (they are proved in that fragment's own unit)
                let dir = std::path::Path::new(path).parent().map(|p| p.to_string_lossy().to_string()).filter(|p| !p.is_empty()).unwrap_or_else(|| ".".to_string());
                let (_, sub) = parse_vspec(&format!("{}/{}", dir, rest));
                for d in sub {
                    match d {
                        Directive::Extract { file, selector, ov, line, .. } => out.push(Directive::Extract { file, selector, ov, line, stub: true }),
                        // lemmas of a stubbed fragment keep their statement but not their proof (it is checked in the fragment's own unit)
                        Directive::Verbatim(t) => out.push(Directive::Verbatim(strip_proof_bodies(&t))),
                        other => out.push(other),
                    }
                }
            }
            "@use" => {
                let dir = std::path::Path::new(path).parent().map(|p| p.to_string_lossy().to_string()).filter(|p| !p.is_empty()).unwrap_or_else(|| ".".to_string());
                let (_, sub) = parse_vspec(&format!("{}/{}", dir, rest));
                out.extend(sub);
            }
            "@include" => out.push(Directive::Include(rest.to_string())),
            "@verbatim" => {
                let mut s = String::new();
                while i < lines.len() && lines[i].trim_end() != "@end" {
                    s.push_str(lines[i]);
                    s.push('\n');
                    i += 1;
                }
                if i >= lines.len() {
                    die(&format!("{}: @verbatim without @end", path));
                }
                i += 1;
                out.push(Directive::Verbatim(s));
            }
            "@struct" => {
                let mut p = rest.splitn(2, "::");
                let file = p.next().unwrap().trim().to_string();
                let mut nm = p.next().unwrap_or_else(|| die("@struct FILE :: NAME")).trim().split_whitespace();
                let name = nm.next().unwrap().to_string();
                let mut opts = HashMap::new();
                for o in nm {
                    let mut kv = o.splitn(2, '=');
                    opts.insert(kv.next().unwrap().to_string(), kv.next().unwrap_or("").to_string());
                }
                out.push(Directive::Struct { file, name, opts });
            }
            "@extract" => {
                let line = i;
                let mut p = rest.splitn(2, "::");
                let file = p.next().unwrap().trim().to_string();
                let selector = p.next().unwrap_or_else(|| die("@extract FILE :: SELECTOR")).trim().to_string();
                let mut ov = FnOverlay::default();
                loop {
                    // skip blank/comment lines between sub-directives
                    while i < lines.len() && !lines[i].starts_with('@') {
                        if !(lines[i].trim().is_empty() || lines[i].trim_start().starts_with('#')) {
                            die(&format!("{}:{}: text outside a sub-directive", path, i + 1));
                        }
                        i += 1;
                    }
                    if i >= lines.len() {
                        break;
                    }
                    let l = lines[i];
                    let mut it = l.splitn(2, char::is_whitespace);
                    let d = it.next().unwrap();
                    let rest = it.next().unwrap_or("").trim();
                    match d {
                        "@ret" => {
                            ov.ret = Some(rest.to_string());
                            i += 1;
                        }
                        "@params" => {
                            ov.params = rest.split_whitespace().map(|s| s.to_string()).collect();
                            i += 1;
                        }
                        "@spec" => {
                            i += 1;
                            ov.spec = body(&lines, &mut i);
                        }
                        "@at" => {
                            i += 1;
                            let b = body(&lines, &mut i);
                            if ov.at.insert(rest.to_string(), b).is_some() {
                                die(&format!("{}: duplicate @at {}", path, rest));
                            }
                        }
                        "@closure" => {
                            i += 1;
                            let mut c = ClosureOv::default();
                            let b = body(&lines, &mut i);
                            for bl in b.lines() {
                                let t = bl.trim_start();
                                if let Some(x) = t.strip_prefix("types:") {
                                    c.types = split_top_commas(x).into_iter().map(|s| s.trim().to_string()).collect();
                                } else if let Some(x) = t.strip_prefix("ret:") {
                                    c.ret = Some(x.trim().to_string());
                                } else {
                                    c.spec.push_str(bl);
                                    c.spec.push('\n');
                                }
                            }
                            ov.closures.insert(rest.to_string(), c);
                        }
                        "@cut" => {
                            i += 1;
                            let mut w = rest.split_whitespace();
                            let mut c = CutOv::default();
                            c.anchor = w.next().unwrap_or_else(|| die("@cut ANCHOR NAME")).to_string();
                            c.name = w.next().unwrap_or_else(|| die("@cut ANCHOR NAME")).to_string();
                            let b = body(&lines, &mut i);
                            for bl in b.lines() {
                                let t = bl.trim_start();
                                if let Some(x) = t.strip_prefix("call:") {
                                    c.call = x.trim().to_string();
                                } else if let Some(x) = t.strip_prefix("sig:") {
                                    c.sig = x.trim().to_string();
                                } else if let Some(x) = t.strip_prefix("tail:") {
                                    c.tail = x.trim().to_string();
                                } else {
                                    c.spec.push_str(bl);
                                    c.spec.push('\n');
                                }
                            }
                            ov.cuts.push(c);
                        }
                        "@fold" => {
                            i += 1;
                            let b = body(&lines, &mut i);
                            ov.folds.insert(rest.to_string(), b.trim().to_string());
                        }
                        "@shape" => {
                            // @shape BLOCK sig|sig|...   expected statement shapes of a block (for alignment of ordinal anchors)
                            let mut w = rest.splitn(2, char::is_whitespace);
                            let b = w.next().unwrap_or_else(|| die("@shape BLOCK sigs")).to_string();
                            let sigs: Vec<String> = w.next().unwrap_or("").split('|').map(|x| x.trim().to_string()).filter(|x| !x.is_empty()).collect();
                            ov.shapes.insert(b, sigs);
                            i += 1;
                        }
                        "@drop" => {
                            ov.drop_stmts.push(rest.to_string());
                            i += 1;
                        }
                        "@prim" => {
                            let mut w = rest.split_whitespace();
                            let k = w.next().unwrap_or_else(|| die("@prim IDENT KIND")).to_string();
                            let v = w.next().unwrap_or_else(|| die("@prim IDENT KIND")).to_string();
                            ov.prim.insert(k, v);
                            i += 1;
                        }
                        "@expect" => {
                            for kv in rest.split_whitespace() {
                                let mut p = kv.splitn(2, '=');
                                let k = p.next().unwrap().to_string();
                                let v: usize = p.next().unwrap_or("0").parse().unwrap_or_else(|_| die("@expect k=N"));
                                ov.expect.insert(k, v);
                            }
                            i += 1;
                        }
                        "@opt" => {
                            for kv in rest.split_whitespace() {
                                let mut p = kv.splitn(2, '=');
                                ov.opts.insert(p.next().unwrap().to_string(), p.next().unwrap_or("").to_string());
                            }
                            i += 1;
                        }
                        _ => break, // next top-level directive
                    }
                }
                out.push(Directive::Extract { file, selector, ov, line, stub: false });
            }
            "@end" => {}
            _ => die(&format!("{}:{}: unknown directive {}", path, i, d)),
        }
    }
    (unit, out)
}

/// `pub proof fn NAME(..) requires .. ensures .. { proof }`  ->  `#[verifier::external_body] pub proof fn NAME(..) requires .. ensures .. { }`
/// (the body starts at the first line that begins with `{` after the signature line)
fn strip_proof_bodies(text: &str) -> String {
    let lines: Vec<&str> = text.lines().collect();
    let mut out = String::new();
    let mut i = 0;
    while i < lines.len() {
        let l = lines[i];
        if l.starts_with("pub proof fn ") || l.starts_with("proof fn ") {
            out.push_str("#[verifier::external_body] // lemma proved in the fragment's own unit\n");
            // signature + spec lines up to the body
            let mut j = i;
            loop {
                if j > i && lines[j].starts_with('{') {
                    break;
                }
                // one-line lemma: signature and body on the same line cannot occur in this code base
                out.push_str(lines[j]);
                out.push('\n');
                j += 1;
                if j >= lines.len() {
                    die("strip_proof_bodies: lemma without a body line starting with `{`");
                }
            }
            // skip the body by brace matching
            let mut depth = 0i32;
            loop {
                for ch in lines[j].chars() {
                    if ch == '{' {
                        depth += 1;
                    } else if ch == '}' {
                        depth -= 1;
                    }
                }
                j += 1;
                if depth <= 0 || j >= lines.len() {
                    break;
                }
            }
            out.push_str("{ }\n");
            i = j;
        } else {
            out.push_str(l);
            out.push('\n');
            i += 1;
        }
    }
    out
}

fn split_top_commas(s: &str) -> Vec<String> {
    let mut out = Vec::new();
    let mut depth = 0i32;
    let mut cur = String::new();
    for ch in s.chars() {
        match ch {
            '<' | '(' | '[' | '{' => {
                depth += 1;
                cur.push(ch)
            }
            '>' | ')' | ']' | '}' => {
                depth -= 1;
                cur.push(ch)
            }
            ',' if depth == 0 => {
                out.push(cur.clone());
                cur.clear();
            }
            _ => cur.push(ch),
        }
    }
    if !cur.trim().is_empty() {
        out.push(cur);
    }
    out
}

fn norm(s: &str) -> String {
    s.chars().filter(|c| !c.is_whitespace()).collect()
}

// ---------------------------------------------------------------------------------------------
// kinds (the small local type classifier of R2 / R7)
// ---------------------------------------------------------------------------------------------
#[derive(Clone, Copy, PartialEq, Debug)]
enum K {
    Int,
    F64,
    Other,
}
const INT_FIELDS: &[&str] = &["dim", "id", "num_edges", "dimension", "num_loops", "counter", "loop_number", "num_massive_edges"];
const F64_FIELDS: &[&str] = &["dod", "cached_factor", "generalized_dod", "j_function", "weight"];
const INT_METHODS: &[&str] = &["len", "get_dim", "get_id", "count_ones", "pow", "get_num_variables", "get_dimension"];
const F64_METHODS: &[&str] = &["to_f64", "verif_as_f64", "compute_weight_sum"];
const F64_SELF_METHODS: &[&str] = &["abs", "fract", "floor", "ceil", "round", "trunc", "sqrt", "ln", "exp", "sin", "cos", "tan", "powf", "powi", "recip", "signum", "max", "min", "mul_add", "clone", "clamp", "log10", "log2", "exp_m1", "ln_1p", "to_degrees", "to_radians", "copysign", "unwrap"];
const INT_TYPES: &[&str] = &["usize", "isize", "u8", "u16", "u32", "u64", "i8", "i16", "i32", "i64", "u128", "i128"];

fn kind_of_type_str(t: &str) -> (K, K) {
    // returns (kind of the value, kind of its innermost element when indexed)
    let n = norm(t);
    let stripped: String = n.replace("&mut", "").replace('&', "").replace("'a", "").replace("'_", "");
    if INT_TYPES.contains(&stripped.as_str()) {
        return (K::Int, K::Int);
    }
    if stripped == "f64" {
        return (K::F64, K::F64);
    }
    // containers of primitives only
    let mut s = stripped.clone();
    for w in ["Vec<", "[", "]", ">", "SmallVec<", "Option<"] {
        s = s.replace(w, "");
    }
    // drop array lengths "; 36"
    if let Some(p) = s.find(';') {
        s.truncate(p);
    }
    if INT_TYPES.contains(&s.as_str()) {
        return (K::Other, K::Int);
    }
    if s == "f64" {
        return (K::Other, K::F64);
    }
    (K::Other, K::Other)
}

// ---------------------------------------------------------------------------------------------
// the rewriting walker
// ---------------------------------------------------------------------------------------------
struct Walker<'s> {
    src: &'s Src,
    ov: &'s FnOverlay,
    edits: Vec<Edit>,
    depth: i64,
    loops: usize,
    closures: usize,
    ifs: usize,
    matches: usize,
    folds: usize,
    block_stmts: HashMap<String, usize>,
    shapes_seen: Vec<(String, Vec<String>)>,
    realigned: Vec<String>,
    block_alias: HashMap<String, String>,
    ctx: Vec<(String, Option<usize>, [usize; 3])>,
    env: Vec<HashMap<String, (K, K)>>,
    used: HashSet<String>,
    cut_defs: Vec<String>,
    cut_info: Vec<serde_json::Value>,
    r2: bool,
    /// R17: (variable, closure parameter pattern, rewritten closure body) of a desugared lazy `flat_map`
    fm: Option<(String, String, String)>,
}

fn has_cfg_log(attrs: &[syn::Attribute]) -> Option<bool> {
    // Some(true): cfg(feature = "log")  -> drop;  Some(false): cfg(not(feature = "log")) -> keep, strip attr
    for a in attrs {
        if a.path().is_ident("cfg") {
            let t = norm(&a.meta.to_token_stream().to_string());
            if t.contains("feature=\"log\"") {
                return Some(!t.contains("not("));
            }
        }
    }
    None
}

impl<'s> Walker<'s> {
    fn rule(&mut self, start: usize, end: usize, text: String, rank: i32, order: i64, rule: &'static str) {
        self.edits.push(Edit { start, end, text, rank, order, rule });
    }
    fn open(&mut self, pos: usize, text: &str, rule: &'static str) {
        let d = self.depth;
        self.rule(pos, pos, text.to_string(), 1, d, rule);
    }
    fn close(&mut self, pos: usize, text: &str, rule: &'static str) {
        let d = self.depth;
        self.rule(pos, pos, text.to_string(), 0, -d, rule);
    }
    fn replace(&mut self, sp: (usize, usize), text: &str, rule: &'static str) {
        self.rule(sp.0, sp.1, text.to_string(), 2, 0, rule);
    }
    fn lookup(&self, id: &str) -> Option<(K, K)> {
        for sc in self.env.iter().rev() {
            if let Some(k) = sc.get(id) {
                return Some(*k);
            }
        }
        None
    }
    fn bind(&mut self, id: &str, k: (K, K)) {
        let k = if let Some(o) = self.ov.prim.get(id) {
            match o.as_str() {
                "int" => (K::Int, K::Int),
                "f64" => (K::F64, K::F64),
                "ints" => (K::Other, K::Int),
                "f64s" => (K::Other, K::F64),
                _ => (K::Other, K::Other),
            }
        } else {
            k
        };
        self.env.last_mut().unwrap().insert(id.to_string(), k);
    }
    fn bind_pat(&mut self, pat: &syn::Pat, k: (K, K)) {
        match pat {
            syn::Pat::Ident(pi) => {
                let id = pi.ident.to_string();
                self.bind(&id, k)
            }
            syn::Pat::Type(pt) => {
                let ts = pt.ty.to_token_stream().to_string();
                let k2 = kind_of_type_str(&ts);
                self.bind_pat(&pt.pat, k2)
            }
            syn::Pat::Reference(r) => self.bind_pat(&r.pat, k),
            syn::Pat::Tuple(t) => {
                for p in t.elems.iter() {
                    self.bind_pat(p, (K::Other, K::Other));
                }
            }
            _ => {}
        }
    }

    fn kind(&self, e: &syn::Expr) -> K {
        use syn::Expr::*;
        match e {
            Lit(l) => match &l.lit {
                syn::Lit::Float(_) => K::F64,
                syn::Lit::Int(li) => {
                    if li.suffix() == "f64" {
                        K::F64
                    } else {
                        K::Int
                    }
                }
                _ => K::Other,
            },
            Cast(c) => {
                let t = norm(&c.ty.to_token_stream().to_string());
                if t == "f64" {
                    K::F64
                } else {
                    K::Int
                }
            }
            Paren(p) => self.kind(&p.expr),
            Group(g) => self.kind(&g.expr),
            Unary(u) => self.kind(&u.expr),
            Reference(r) => self.kind(&r.expr),
            Binary(b) => {
                let l = self.kind(&b.left);
                let r = self.kind(&b.right);
                if l == K::F64 || r == K::F64 {
                    K::F64
                } else if l == K::Int || r == K::Int {
                    K::Int
                } else {
                    K::Other
                }
            }
            Path(p) => {
                if let Some(id) = p.path.get_ident() {
                    self.lookup(&id.to_string()).map(|k| k.0).unwrap_or(K::Other)
                } else {
                    K::Other
                }
            }
            Field(f) => match &f.member {
                syn::Member::Named(id) => {
                    let s = id.to_string();
                    if INT_FIELDS.contains(&s.as_str()) {
                        K::Int
                    } else if F64_FIELDS.contains(&s.as_str()) {
                        K::F64
                    } else {
                        K::Other
                    }
                }
                syn::Member::Unnamed(_) => {
                    if let Path(p) = &*f.base {
                        if p.path.is_ident("index") {
                            return K::Int;
                        }
                    }
                    K::Other
                }
            },
            MethodCall(m) => {
                let s = m.method.to_string();
                if INT_METHODS.contains(&s.as_str()) {
                    K::Int
                } else if F64_METHODS.contains(&s.as_str()) {
                    K::F64
                } else if F64_SELF_METHODS.contains(&s.as_str()) && self.kind(&m.receiver) == K::F64 {
                    K::F64
                } else {
                    K::Other
                }
            }
            Index(ix) => {
                // innermost base ident decides
                let mut b = &*ix.expr;
                loop {
                    match b {
                        Index(i2) => b = &*i2.expr,
                        Paren(p) => b = &*p.expr,
                        Reference(r) => b = &*r.expr,
                        _ => break,
                    }
                }
                if let Path(p) = b {
                    if let Some(id) = p.path.get_ident() {
                        return self.lookup(&id.to_string()).map(|k| k.1).unwrap_or(K::Other);
                    }
                }
                K::Other
            }
            _ => K::Other,
        }
    }

    fn anchor_text(&mut self, key: &str) -> Option<String> {
        if let Some(t) = self.ov.at.get(key) {
            self.used.insert(key.to_string());
            return Some(t.clone());
        }
        // positional alias of the block (e.g. `fn.s23t` for the then-block of the `if` that is statement 23 of the body)
        if let Some(dot) = key.rfind('.') {
            let (blk, suf) = key.split_at(dot);
            if let Some(al) = self.block_alias.get(blk) {
                let k2 = format!("{}{}", al, suf);
                if let Some(t) = self.ov.at.get(&k2) {
                    self.used.insert(k2);
                    return Some(t.clone());
                }
            }
        }
        None
    }
    /// overlay text of the next fold / filter: positional key `<blk>.s<k>.F<n>` first, then the global ordinal `F<k>`
    fn fold_overlay(&mut self, what: &str, at: usize) -> String {
        self.folds += 1;
        let g = format!("F{}", self.folds);
        if let Some(k) = self.local_key(2, "F") {
            if let Some(t) = self.ov.folds.get(&k).cloned() {
                self.used.insert(format!("fold:{}", k));
                return t;
            }
        }
        let t = self.ov.folds.get(&g).cloned().unwrap_or_else(|| die(&format!("lost anchor: {} `{}` has no @fold overlay at {}:{}", what, g, self.src.path, self.src.line_of(at))));
        self.used.insert(format!("fold:{}", g));
        t
    }
    /// is there an overlay for the next fold/filter (positional or by ordinal)?  (`Option::filter` has none and is left alone)
    fn has_fold_overlay(&self) -> bool {
        let g = format!("F{}", self.folds + 1);
        if self.ov.folds.contains_key(&g) {
            return true;
        }
        if let Some((blk, Some(e), cnt)) = self.ctx.last() {
            return self.ov.folds.contains_key(&format!("{}.s{}.F{}", blk, e, cnt[2] + 1));
        }
        false
    }
    fn shape_of(&self, name: &str) -> Option<&Vec<String>> {
        self.ov.shapes.get(name).or_else(|| self.block_alias.get(name).and_then(|a| self.ov.shapes.get(a)))
    }
    /// positional name of the k-th construct (closure / if / fold) inside the statement being walked
    fn local_key(&mut self, which: usize, letter: &str) -> Option<String> {
        if let Some((blk, Some(e), cnt)) = self.ctx.last_mut() {
            cnt[which] += 1;
            Some(format!("{}.s{}.{}{}", blk, e, letter, cnt[which]))
        } else {
            None
        }
    }

    // ---- blocks -------------------------------------------------------------------------------
    fn walk_block(&mut self, b: &syn::Block, name: &str) {
        self.env.push(HashMap::new());
        let n = b.stmts.len();
        self.block_stmts.insert(name.to_string(), n);
        let actual_shapes: Vec<String> = b.stmts.iter().map(stmt_shape).collect();
        self.shapes_seen.push((name.to_string(), actual_shapes.clone()));
        // ordinal anchors are written against the expected shape of the block; after an edit that inserts or deletes
        // statements they are re-attached through an LCS alignment of the statement shapes
        let (n_exp, before): (usize, Vec<Vec<usize>>) = match self.shape_of(name).cloned().as_ref() {
            Some(exp) if *exp != actual_shapes => {
                let al = lcs_align(exp, &actual_shapes);
                let mut before: Vec<Vec<usize>> = vec![Vec::new(); n + 1];
                let mut pending: Vec<usize> = Vec::new();
                for (e, a) in al.iter().enumerate() {
                    match a {
                        Some(j) => {
                            before[*j].extend(pending.drain(..));
                            before[*j].push(e);
                        }
                        None => pending.push(e),
                    }
                }
                before[n].extend(pending.drain(..));
                self.realigned.push(name.to_string());
                (exp.len(), before)
            }
            _ => (n, (0..=n).map(|k| if k < n { vec![k] } else { vec![] }).collect()),
        };
        // R15: `if C { continue; }` as a direct statement of a loop body  ->  `if !(C) { <rest of the body> }`
        // (Verus does not support `continue` in `for` loops; the two forms are equivalent by definition of `continue`)
        let mut r15_close = 0usize;
        if name.starts_with('L') {
            for st in b.stmts.iter() {
                if let syn::Stmt::Expr(syn::Expr::If(i), _) = st {
                    let only_continue = i.else_branch.is_none() && i.then_branch.stmts.len() == 1
                        && matches!(&i.then_branch.stmts[0], syn::Stmt::Expr(syn::Expr::Continue(c), _) if c.label.is_none());
                    if only_continue {
                        let (cs, ce) = self.src.range(i.cond.span());
                        self.open(cs, "!(", "R15");
                        self.close(ce, ")", "R15");
                        let tb = self.src.range(i.then_branch.span());
                        self.replace(tb, "{", "R15");
                        r15_close += 1;
                    }
                }
            }
        }
        for (k, st) in b.stmts.iter().enumerate() {
            let st_start = self.stmt_start(st);
            // expected index of this statement (None if it was inserted by the edit)
            let exp_idx: Option<usize> = before[k].last().copied().filter(|e| self.shape_of(name).map(|x| x.get(*e) == Some(&actual_shapes[k])).unwrap_or(true));
            for e in before[k].iter() {
                if let Some(t) = self.anchor_text(&format!("{}.s{}", name, e)) {
                    self.open(st_start, &format!("{}\n", t.trim_end()), "overlay");
                }
            }
            let key = match exp_idx {
                Some(e) => format!("{}.s{}", name, e),
                None => format!("{}.inserted{}", name, k),
            };
            let is_tail = k == n - 1 && is_value_tail(st);
            if is_tail {
                if let Some(t) = self.anchor_text(&format!("{}.end", name)) {
                    self.open(st_start, &format!("{}\n", t.trim_end()), "overlay");
                }
                if let Some(t) = self.anchor_text(&format!("{}.tail", name)) {
                    // R9: `E` -> `let ret_tail = E; <proof> ret_tail`
                    let (_, e) = self.src.range(st.span());
                    self.open(st_start, "let ret_tail = ", "R9");
                    self.close(e, &format!(";\n{}\nret_tail", t.trim_end()), "R9");
                }
            }
            // cuts / drops
            if let Some(c) = self.ov.cuts.iter().find(|c| c.anchor == key).cloned() {
                self.used.insert(format!("cut:{}", key));
                let (s, e) = self.src.range(st.span());
                let body = self.src.text[s..e].to_string();
                self.replace((s, e), &format!("{};", c.call), "R10");
                self.cut_defs.push(format!(
                    "#[verifier::external_body]\n{}\n{}{{\n    {}\n    {}\n}}\n",
                    c.sig,
                    c.spec,
                    body,
                    c.tail
                ));
                self.cut_info.push(serde_json::json!({"name": c.name, "anchor": key, "repo_line": self.src.line_of(s), "statement": body}));
                continue;
            }
            if self.ov.drop_stmts.iter().any(|d| *d == key) {
                self.used.insert(format!("drop:{}", key));
                let (s, e) = self.src.range(st.span());
                self.replace((s, e), "", "R8");
                continue;
            }
            self.ctx.push((name.to_string(), exp_idx, [0, 0, 0]));
            self.walk_stmt(st);
            self.ctx.pop();
        }
        let close = self.src.off(b.brace_token.span.close().start());
        if r15_close > 0 {
            let d = self.depth;
            self.rule(close, close, "}".repeat(r15_close) + "\n", 1, d + 1000, "R15");
        }
        let has_tail = n > 0 && is_value_tail(&b.stmts[n - 1]);
        if !has_tail {
            if let Some(t) = self.anchor_text(&format!("{}.end", name)) {
                self.open(close, &format!("{}\n", t.trim_end()), "overlay");
            }
        }
        for e in before[n].iter().copied().chain(std::iter::once(n_exp)) {
            if let Some(t) = self.anchor_text(&format!("{}.s{}", name, e)) {
                if has_tail {
                    die(&format!("anchor {}.s{} addresses the position after a tail expression", name, e));
                }
                self.open(close, &format!("{}\n", t.trim_end()), "overlay");
            }
        }
        self.env.pop();
    }

    fn stmt_start(&self, st: &syn::Stmt) -> usize {
        self.src.off(st.span().start())
    }

    fn strip_attrs(&mut self, attrs: &[syn::Attribute]) {
        for a in attrs {
            let (s, e) = self.src.range(a.span());
            self.replace((s, e), "", "R5");
        }
    }

    fn walk_stmt(&mut self, st: &syn::Stmt) {
        match st {
            syn::Stmt::Local(l) => {
                if let Some(dropit) = has_cfg_log(&l.attrs) {
                    if dropit {
                        let r = self.src.range(st.span());
                        self.replace(r, "", "R5");
                        return;
                    }
                    self.strip_attrs(&l.attrs);
                }
                let mut k = (K::Other, K::Other);
                // R17: `let mut G = RECV.flat_map(|P| BODY);` whose closure mutates captured state (outside R13), with `G` used only
                // through `G.next()`: the definition of `FlatMap::next` is written out at each `G.next()` (see the `next` arm of
                // walk_expr).  Here:  `let mut G = RECV; let mut verif_fm_front_G = Vec::new();`  — the outer iterator and the
                // not yet delivered items of the current inner iterator.  BODY is moved (with its rewrites) to the pull sites.
                if let (Some(want), Some(init), syn::Pat::Ident(pi)) = (self.ov.opts.get("desugar_flat_map"), &l.init, &l.pat) {
                    if *want == pi.ident.to_string() {
                        if let syn::Expr::MethodCall(m) = &*init.expr {
                            if m.method == "flat_map" && m.args.len() == 1 {
                                if let syn::Expr::Closure(c) = &m.args[0] {
                                    if c.inputs.len() == 1 && self.fm.is_none() {
                                        let g = pi.ident.to_string();
                                        let (_, rend) = self.src.range(m.receiver.span());
                                        let (_, iend) = self.src.range(init.expr.span());
                                        let (ps, pe) = self.src.range(c.inputs[0].span());
                                        let (bs, be) = self.src.range(c.body.span());
                                        let before = self.edits.len();
                                        self.env.push(HashMap::new());
                                        self.bind_pat(&c.inputs[0], (K::Other, K::Other));
                                        self.walk_expr(&c.body);
                                        self.env.pop();
                                        let mut body_edits: Vec<Edit> = self.edits.drain(before..).collect();
                                        let (body_txt, _) = apply(self.src, bs, be, &mut body_edits);
                                        self.fm = Some((g.clone(), self.src.text[ps..pe].to_string(), body_txt));
                                        self.replace((rend, iend), &format!("; let mut verif_fm_front_{} = ::std::vec::Vec::new()", g), "R17");
                                        self.walk_expr(&m.receiver);
                                        self.bind_pat(&l.pat, k);
                                        return;
                                    }
                                }
                            }
                        }
                    }
                }
                if let Some(init) = &l.init {
                    self.walk_expr(&init.expr);
                    let kk = self.kind(&init.expr);
                    k = (kk, K::Other);
                    if let Some((_, d)) = &init.diverge {
                        self.walk_expr(d);
                    }
                }
                self.walk_pat_types(&l.pat);
                self.bind_pat(&l.pat, k);
            }
            syn::Stmt::Expr(e, _) => {
                let attrs = expr_attrs(e);
                if let Some(dropit) = has_cfg_log(attrs) {
                    if dropit {
                        let r = self.src.range(st.span());
                        self.replace(r, "", "R5");
                        return;
                    }
                    let a: Vec<syn::Attribute> = attrs.to_vec();
                    self.strip_attrs(&a);
                }
                self.walk_expr(e)
            }
            syn::Stmt::Macro(m) => {
                if let Some(dropit) = has_cfg_log(&m.attrs) {
                    if dropit {
                        let r = self.src.range(st.span());
                        self.replace(r, "", "R5");
                        return;
                    }
                    self.strip_attrs(&m.attrs);
                }
                let (s, _) = self.src.range(m.mac.span());
                let (_, e) = self.src.range(st.span());
                // replace the macro invocation only (keep a trailing `;` if the source has one)
                let mac_end = self.src.range(m.mac.span()).1;
                let _ = e;
                self.rewrite_macro(&m.mac, (s, mac_end));
            }
            syn::Stmt::Item(_) => die("nested item inside a function body is not supported"),
        }
    }

    fn walk_pat_types(&mut self, p: &syn::Pat) {
        if let syn::Pat::Type(pt) = p {
            self.walk_type(&pt.ty);
        }
    }

    fn walk_type(&mut self, t: &syn::Type) {
        // R3: SmallVec<[X; N]> -> Vec<X>
        match t {
            syn::Type::Path(tp) => {
                if let Some(last) = tp.path.segments.last() {
                    if last.ident == "SmallVec" {
                        if let syn::PathArguments::AngleBracketed(ab) = &last.arguments {
                            if let Some(syn::GenericArgument::Type(syn::Type::Array(arr))) = ab.args.first() {
                                let inner = self.src.slice(arr.elem.span()).to_string();
                                let r = self.src.range(t.span());
                                // nested SmallVec inside `inner` is not expected
                                self.replace(r, &format!("Vec<{}>", inner), "R3");
                                return;
                            }
                        }
                        die("SmallVec type of unexpected shape");
                    }
                    for seg in tp.path.segments.iter() {
                        if let syn::PathArguments::AngleBracketed(ab) = &seg.arguments {
                            for a in ab.args.iter() {
                                if let syn::GenericArgument::Type(t2) = a {
                                    self.walk_type(t2);
                                }
                            }
                        }
                    }
                }
            }
            syn::Type::Reference(r) => self.walk_type(&r.elem),
            syn::Type::Slice(s) => self.walk_type(&s.elem),
            syn::Type::Array(a) => self.walk_type(&a.elem),
            syn::Type::Tuple(tu) => {
                for e in tu.elems.iter() {
                    self.walk_type(e);
                }
            }
            syn::Type::Paren(p) => self.walk_type(&p.elem),
            _ => {}
        }
    }

    fn rewrite_macro(&mut self, mac: &syn::Macro, range: (usize, usize)) {
        let name = mac.path.segments.last().map(|s| s.ident.to_string()).unwrap_or_default();
        match name.as_str() {
            "println" | "eprintln" | "print" => {
                // R5: keep a call that borrows every argument
                let args = split_macro_args(mac);
                let mut t = String::from("{ ");
                if args.len() <= 1 {
                    t.push_str("verif_debug_sink(&()); ");
                }
                for a in args.iter().skip(1) {
                    t.push_str(&format!("verif_debug_sink(&({})); ", a));
                }
                t.push('}');
                self.replace(range, &t, "R5");
            }
            "panic" | "unreachable" | "unimplemented" | "todo" => {
                self.replace(range, "verif_panic()", "R6");
            }
            "format" => {
                self.replace(range, "verif_opaque_string()", "R6");
            }
            "assert" => {
                let args = split_macro_args(mac);
                self.replace(range, &format!("verif_assert({})", args.first().cloned().unwrap_or_default()), "R6");
            }
            "vec" => {
                // accepted by Verus as is; the element / length expressions are plain source text
            }
            "izip" => {
                // itertools::izip!(a, b, c) — definitional expansion for three slices (itertools docs):
                // a.into_iter().zip(b).zip(c).map(|((a, b), c)| (a, b, c)); handled by a library contract `izip3`.
                let args = split_macro_args(mac);
                if args.len() == 3 {
                    self.replace(range, &format!("izip3({}, {}, {})", args[0], args[1], args[2]), "R11");
                } else {
                    die("izip! with an arity other than 3 is not supported");
                }
            }
            other => die(&format!("unsupported macro `{}!` at {}:{}", other, self.src.path, self.src.line_of(range.0))),
        }
    }

    // ---- expressions --------------------------------------------------------------------------
    fn walk_expr(&mut self, e: &syn::Expr) {
        use syn::Expr::*;
        self.depth += 1;
        match e {
            Binary(b) => self.walk_binary(b),
            Unary(u) => {
                if let syn::UnOp::Neg(tok) = &u.op {
                    let k = self.kind(&u.expr);
                    let (s, en) = self.src.range(e.span());
                    let ts = self.src.range(tok.span());
                    match k {
                        K::F64 => {
                            self.replace(ts, "", "R7");
                            self.open(s, "f64_neg(", "R7");
                            self.close(en, ")", "R7");
                        }
                        K::Other if self.r2 => {
                            self.replace(ts, "", "R2");
                            self.open(s, "::core::ops::Neg::neg(", "R2");
                            self.close(en, ")", "R2");
                        }
                        _ => {}
                    }
                }
                self.walk_expr(&u.expr)
            }
            Cast(c) => {
                let t = norm(&c.ty.to_token_stream().to_string());
                if t == "f64" {
                    // R7: `x as f64` -> `(x).verif_as_f64()`
                    let (s, _) = self.src.range(c.expr.span());
                    let (_, xe) = self.src.range(c.expr.span());
                    let (_, en) = self.src.range(e.span());
                    self.open(s, "(", "R7");
                    self.rule(xe, en, ").verif_as_f64()".to_string(), 2, 0, "R7");
                } else if INT_TYPES.contains(&t.as_str()) && self.kind(&c.expr) == K::F64 {
                    // R7: `x as i32` with x: f64 -> `f64_as_i32(x)` (an uninterpreted function of x)
                    let (s, _) = self.src.range(c.expr.span());
                    let (_, xe) = self.src.range(c.expr.span());
                    let (_, en) = self.src.range(e.span());
                    self.open(s, &format!("f64_as_{}(", t), "R7");
                    self.rule(xe, en, ")".to_string(), 2, 0, "R7");
                }
                self.walk_expr(&c.expr)
            }
            Closure(c) => self.walk_closure(c),
            ForLoop(f) => {
                self.loops += 1;
                let name = format!("L{}", self.loops);
                self.walk_expr(&f.expr);
                // kind of the loop variable
                let k = match &*f.expr {
                    Range(r) => {
                        let a = r.start.as_ref().map(|x| self.kind(x)).unwrap_or(K::Other);
                        let b = r.end.as_ref().map(|x| self.kind(x)).unwrap_or(K::Other);
                        if a == K::Int || b == K::Int {
                            K::Int
                        } else {
                            K::Other
                        }
                    }
                    _ => K::Other,
                };
                if let Some(t) = self.anchor_text(&format!("{}.iter", name)) {
                    // Verus: `for x in it: expr` — ghost iterator name goes right after `in`
                    let (s, _) = self.src.range(f.expr.span());
                    self.open(s, &format!("{} ", t.trim()), "overlay");
                }
                let open = self.src.off(f.body.brace_token.span.open().start());
                let desugar = self.ov.opts.get("desugar_for").map(|v| v.split(',').any(|x| x == name)).unwrap_or(false);
                if desugar {
                    // R14: `for PAT in EXPR BODY`  ->  `{ let mut verif_it = EXPR; loop INV { match verif_it.next() { None => break, Some(PAT) => BODY } } }`
                    // (the definition of `for` in the Rust reference, for an expression that already is an iterator)
                    let (fs, _) = self.src.range(e.span());
                    let (ps, pe) = self.src.range(f.pat.span());
                    let (xs, xe) = self.src.range(f.expr.span());
                    let pat_txt = self.src.text[ps..pe].to_string();
                    let inv = self.anchor_text(&format!("{}.inv", name)).unwrap_or_default();
                    self.replace((fs, xs), &format!("{{ let mut verif_it_{} = ", name), "R14");
                    self.rule(xe, open, format!("; loop\n{}\n{{ match verif_it_{}.next() {{ None => break, Some({}) => ", inv.trim_end(), name, pat_txt), 2, 0, "R14");
                    let close = self.src.off(f.body.brace_token.span.close().end());
                    self.close(close, " } } }", "R14");
                } else if let Some(t) = self.anchor_text(&format!("{}.inv", name)) {
                    self.open(open, &format!("\n{}\n", t.trim_end()), "overlay");
                }
                self.env.push(HashMap::new());
                self.bind_pat(&f.pat, (k, K::Other));
                self.walk_block(&f.body, &name);
                self.env.pop();
            }
            While(w) => {
                self.loops += 1;
                let name = format!("L{}", self.loops);
                self.walk_expr(&w.cond);
                let open = self.src.off(w.body.brace_token.span.open().start());
                if let Some(t) = self.anchor_text(&format!("{}.inv", name)) {
                    self.open(open, &format!("\n{}\n", t.trim_end()), "overlay");
                }
                self.walk_block(&w.body, &name);
            }
            Loop(l) => {
                self.loops += 1;
                let name = format!("L{}", self.loops);
                let open = self.src.off(l.body.brace_token.span.open().start());
                if let Some(t) = self.anchor_text(&format!("{}.inv", name)) {
                    self.open(open, &format!("\n{}\n", t.trim_end()), "overlay");
                }
                self.walk_block(&l.body, &name);
            }
            If(i) => {
                self.ifs += 1;
                let name = format!("I{}", self.ifs);
                if let Some(lk) = self.local_key(1, "I") {
                    // the first `if` of a statement is addressed as `<blk>.s<k>t` / `<blk>.s<k>e`
                    let pos = if lk.ends_with(".I1") { lk[..lk.len() - 3].to_string() } else { lk };
                    self.block_alias.insert(format!("{}t", name), format!("{}t", pos));
                    self.block_alias.insert(format!("{}e", name), format!("{}e", pos));
                }
                self.walk_expr(&i.cond);
                self.walk_block(&i.then_branch, &format!("{}t", name));
                if let Some((_, eb)) = &i.else_branch {
                    match &**eb {
                        Block(b) => self.walk_block(&b.block, &format!("{}e", name)),
                        other => self.walk_expr(other),
                    }
                }
            }
            Block(b) => {
                if let Some(dropit) = has_cfg_log(&b.attrs) {
                    if dropit {
                        let r = self.src.range(e.span());
                        self.replace(r, "", "R5");
                        self.depth -= 1;
                        return;
                    }
                }
                self.walk_block_anon(&b.block)
            }
            Macro(m) => {
                let r = self.src.range(m.mac.span());
                self.rewrite_macro(&m.mac, r);
            }
            MethodCall(m) => {
                let mname = m.method.to_string();
                // R13: provided Iterator methods are routed through wrapper functions whose body is the same call
                let (es, ee) = self.src.range(e.span());
                let (_, re) = self.src.range(m.receiver.span());
                let po_end = self.src.off(m.paren_token.span.open().end());
                let pc_start = self.src.off(m.paren_token.span.close().start());
                let mut handled_collect = false;
                match mname.as_str() {
                    "fold" if matches!(&*m.receiver, MethodCall(inner) if inner.method == "map" && inner.args.len() == 1) => {
                        // `.map(F).fold(init, G)`  ->  verif_map_fold(RECV, F, init, G, Ghost(inv))
                        if let MethodCall(inner) = &*m.receiver {
                            let inv = self.fold_overlay("fold", es);
                            let (_, ire) = self.src.range(inner.receiver.span());
                            let ipo_end = self.src.off(inner.paren_token.span.open().end());
                            let ipc_start = self.src.off(inner.paren_token.span.close().start());
                            self.open(es, "verif_map_fold(", "R13");
                            self.replace((ire, ipo_end), ", ", "R13");
                            self.replace((ipc_start, po_end), ", ", "R13");
                            let lead = if m.args.trailing_punct() { "" } else { ", " };
                            self.close(pc_start, &format!("{}Ghost({})", lead, inv), "R13");
                            self.walk_expr(&inner.receiver);
                            for a in inner.args.iter() {
                                self.walk_arg_hof(a, true);
                            }
                            for a in m.args.iter() {
                                self.walk_arg_hof(a, true);
                            }
                            self.depth -= 1;
                            return;
                        }
                    }
                    "fold" => {
                        let inv = self.fold_overlay("fold", es);
                        self.open(es, "verif_fold(", "R13");
                        self.replace((re, po_end), ", ", "R13");
                        let lead = if m.args.trailing_punct() { "" } else { ", " };
                        self.close(pc_start, &format!("{}Ghost({})", lead, inv), "R13");
                    }
                    "filter" if m.args.len() == 1 && self.has_fold_overlay() => {
                        let pred = self.fold_overlay("filter", es);
                        self.open(es, "verif_filter(", "R13");
                        self.replace((re, po_end), ", ", "R13");
                        let lead = if m.args.trailing_punct() { "" } else { ", " };
                        self.close(pc_start, &format!("{}Ghost({})", lead, pred), "R13");
                    }
                    "try_into" if m.args.is_empty() => {
                        // `v.try_into()` (Vec -> array): routed through a wrapper with the definitional contract (R13)
                        self.open(es, "verif_try_into(", "R13");
                        self.replace((re, ee), ")", "R13");
                    }
                    "take" if m.args.len() == 1 && matches!(&*m.receiver, Call(c) if matches!(&*c.func, Path(p) if p.path.is_ident("repeat_with"))) => {
                        // `repeat_with(f).take(n)`  ->  verif_repeat_take(f, n)   (the closure may have mutable state: only the length is specified)
                        if let Call(c) = &*m.receiver {
                            if c.args.len() == 1 {
                                let (fs, fe) = self.src.range(c.args[0].span());
                                self.replace((es, fs), "verif_repeat_take(", "R13");
                                self.replace((fe, po_end), ", ", "R13");
                                // closing paren of take(...) is kept
                                self.walk_arg_hof(&c.args[0], true);
                                for a in m.args.iter() {
                                    self.walk_arg(a);
                                }
                                self.depth -= 1;
                                return;
                            }
                        }
                    }
                    "inline_size" if m.args.is_empty() => {
                        // R3: SmallVec-only API; under A-SV the inline capacity is an arbitrary number
                        self.replace((es, ee), "verif_smallvec_inline_size()", "R3");
                        self.depth -= 1;
                        return;
                    }
                    "next" if m.args.is_empty()
                        && matches!((&self.fm, &*m.receiver), (Some((g, _, _)), Path(p)) if p.path.is_ident(g.as_str())) =>
                    {
                        // R17: `G.next()` on the desugared lazy flat_map: the definition of `FlatMap::next` (deliver the buffered items
                        // of the current inner iterator; when there is none pull the outer iterator, run the closure, buffer its items;
                        // end when the outer iterator ends), with the closure body at the place where it runs.
                        let (g, pat, body) = self.fm.clone().unwrap();
                        self.loops += 1;
                        let name = format!("L{}", self.loops);
                        let inv = self.anchor_text(&format!("{}.inv", name)).unwrap_or_default();
                        let text = format!(
                            "{{ let mut verif_fm_out = None;\n loop\n{inv}\n {{\n if verif_fm_front_{g}.len() > 0 {{ verif_fm_out = Some(verif_fm_front_{g}.remove(0)); break; }}\n match {g}.next() {{ None => {{ break; }} Some({pat}) => {{ verif_fm_front_{g} = verif_array_into_vec({body}); }} }}\n }}\n verif_fm_out }}",
                            inv = inv.trim_end(), g = g, pat = pat, body = body
                        );
                        self.replace((es, ee), &text, "R17");
                        self.depth -= 1;
                        return;
                    }
                    "for_each" if m.args.len() == 1
                        && self.ov.opts.get("desugar_iter_mut_for_each").map(|v| v == "on").unwrap_or(false)
                        && matches!(&m.args[0], Closure(c) if c.inputs.len() == 1)
                        && matches!(&*m.receiver, MethodCall(im) if im.method == "iter_mut" && im.args.is_empty() && matches!(&*im.receiver, Path(p) if p.path.get_ident().is_some())) =>
                    {
                        // R18: `V.iter_mut().for_each(|P| BODY)` (closure over `&mut` items: outside R13) for a local `V`: the definitions of
                        // `slice::IterMut` (every element once, in index order, by mutable reference) and `for_each` written out:
                        //   { let mut verif_im_i: usize = 0; while verif_im_i < V.len() INV { let P = &mut V[verif_im_i]; BODY; verif_im_i += 1; } }
                        if let (MethodCall(im), Closure(c)) = (&*m.receiver, &m.args[0]) {
                            if let Path(vp) = &*im.receiver {
                                let v = vp.path.get_ident().unwrap().to_string();
                                self.loops += 1;
                                let name = format!("L{}", self.loops);
                                let inv = self.anchor_text(&format!("{}.inv", name)).unwrap_or_default();
                                let (ps, pe) = self.src.range(c.inputs[0].span());
                                let (bs, be) = self.src.range(c.body.span());
                                let pat = self.src.text[ps..pe].to_string();
                                self.replace((es, bs), &format!("{{ let mut verif_im_i: usize = 0;\n while verif_im_i < {v}.len()\n{inv}\n {{ let {pat} = &mut {v}[verif_im_i]; ", v = v, inv = inv.trim_end(), pat = pat), "R18");
                                self.replace((be, ee), "; verif_im_i += 1; } }", "R18");
                                self.env.push(HashMap::new());
                                self.bind_pat(&c.inputs[0], (K::Other, K::Other));
                                self.walk_expr(&c.body);
                                self.env.pop();
                                self.depth -= 1;
                                return;
                            }
                        }
                    }
                    "count" if m.args.is_empty() => {
                        // `it.count()` -> verif_count(it): the number of remaining items (R13)
                        self.open(es, "verif_count(", "R13");
                        self.replace((re, ee), ")", "R13");
                    }
                    "any" | "all" if m.args.len() == 1 && self.ov.opts.get("wrap_any_all").map(|v| v == "on").unwrap_or(false) => {
                        // `it.any(f)` / `it.all(f)` -> verif_any(it, f) / verif_all(it, f): the adapters' definitions over the items (R13)
                        self.open(es, if mname == "any" { "verif_any(" } else { "verif_all(" }, "R13");
                        self.replace((re, po_end), ", ", "R13");
                    }
                    "enumerate" if m.args.is_empty() => {
                        self.open(es, "verif_enumerate(", "R13");
                        self.replace((re, ee), ")", "R13");
                    }
                    "zip" if m.args.len() == 1 => {
                        self.open(es, "verif_zip(", "R13");
                        self.replace((re, po_end), ", ", "R13");
                    }
                    "sum" if self.ov.opts.get("desugar_map_sum").map(|v| v == "on").unwrap_or(false)
                        && matches!(&*m.receiver, MethodCall(inner) if inner.method == "map" && inner.args.len() == 1 && matches!(&inner.args[0], Closure(c) if c.inputs.len() == 1)) =>
                    {
                        // R16: `RECV.map(|P| BODY).sum()` for a closure with mutable captured state (outside R13): the definitions of
                        // `Iterator::map` (lazy: the closure runs when the item is pulled) and `Sum<f64>` (left fold with `+` from the
                        // additive identity) written out as a loop:
                        //   { let mut it = RECV; let mut acc: f64 = f64_sum_init(); loop { match it.next() { None => break,
                        //     Some(P) => { let item: f64 = BODY; acc = f64_add(acc, item); } } } acc }
                        if let MethodCall(inner) = &*m.receiver {
                            if let Closure(c) = &inner.args[0] {
                                self.loops += 1;
                                let name = format!("L{}", self.loops);
                                let (rs, rend) = self.src.range(inner.receiver.span());
                                let (ps, pe) = self.src.range(c.inputs[0].span());
                                let (bs, be) = self.src.range(c.body.span());
                                let inv = self.anchor_text(&format!("{}.inv", name)).unwrap_or_default();
                                let endt = self.anchor_text(&format!("{}.end", name)).unwrap_or_default();
                                let post = self.anchor_text(&format!("{}.post", name)).unwrap_or_default();
                                let _ = rs;
                                self.open(es, "{ let mut verif_sum_it = ", "R16");
                                let pre = self.anchor_text(&format!("{}.pre", name)).unwrap_or_default();
                                let begin = self.anchor_text(&format!("{}.begin", name)).unwrap_or_default();
                                self.replace((rend, ps), &format!("; let mut verif_sum_acc: f64 = f64_sum_init();\n{}\n loop\n{}\n{{ match verif_sum_it.next() {{ None => {{ break; }} Some(", pre.trim_end(), inv.trim_end()), "R16");
                                self.replace((pe, bs), &format!(") => {{\n{}\n let verif_sum_item: f64 = ", begin.trim_end()), "R16");
                                self.replace((be, ee), &format!("; verif_sum_acc = f64_add(verif_sum_acc, verif_sum_item);\n{}\n }} }} }}\n{}\n verif_sum_acc }}", endt.trim_end(), post.trim_end()), "R16");
                                self.walk_expr(&inner.receiver);
                                self.env.push(HashMap::new());
                                self.bind_pat(&c.inputs[0], (K::Other, K::Other));
                                self.walk_expr(&c.body);
                                self.env.pop();
                                self.depth -= 1;
                                return;
                            }
                        }
                    }
                    "product" | "sum" if matches!(&*m.receiver, MethodCall(inner) if inner.method == "map" && inner.args.len() == 1) => {
                        // `.map(F).product::<f64>()` / `.map(F).sum()`  ->  verif_map_product(RECV, F) / verif_map_sum(RECV, F)
                        if let MethodCall(inner) = &*m.receiver {
                            let (is, _) = self.src.range(inner.span());
                            let (_, ire) = self.src.range(inner.receiver.span());
                            let ipo_end = self.src.off(inner.paren_token.span.open().end());
                            let ipc_start = self.src.off(inner.paren_token.span.close().start());
                            let w = if mname == "product" { "verif_map_product(" } else if self.ov.opts.get("sum_type").map(|v| v == "usize").unwrap_or(false) { "verif_map_sum_usize(" } else { "verif_map_sum(" };
                            self.open(is, w, "R13");
                            self.replace((ire, ipo_end), ", ", "R13");
                            self.replace((ipc_start, ee), ")", "R13");
                            self.walk_expr(&inner.receiver);
                            for a in inner.args.iter() {
                                self.walk_arg_hof(a, true);
                            }
                            self.depth -= 1;
                            return;
                        }
                    }
                    "map" if m.args.len() == 1 && self.ov.opts.get("wrap_map").map(|v| v == "on").unwrap_or(false) => {
                        // a `.map(F)` that is consumed later (e.g. by a `for`): verif_map(RECV, F)
                        self.open(es, "verif_map(", "R13");
                        self.replace((re, po_end), ", ", "R13");
                    }
                    "collect_vec" | "collect" | "unzip" => {
                        // `.map(F).collect_vec()` / `.map(F).unzip()`  ->  verif_map_collect(RECV, F) / verif_map_unzip(RECV, F)
                        if let MethodCall(inner) = &*m.receiver {
                            if inner.method == "map" && inner.args.len() == 1 {
                                let (is, _) = self.src.range(inner.span());
                                let (_, ire) = self.src.range(inner.receiver.span());
                                let ipo_end = self.src.off(inner.paren_token.span.open().end());
                                let ipc_start = self.src.off(inner.paren_token.span.close().start());
                                let w = if mname == "unzip" { "verif_map_unzip(" } else { "verif_map_collect(" };
                                self.open(is, w, "R13");
                                self.replace((ire, ipo_end), ", ", "R13");
                                self.replace((ipc_start, ee), ")", "R13");
                                self.walk_expr(&inner.receiver);
                                for a in inner.args.iter() {
                                    self.walk_arg_hof(a, true);
                                }
                                handled_collect = true;
                            }
                        }
                        if !handled_collect && mname == "collect_vec" {
                            // itertools: `it.collect_vec()` == `it.collect::<Vec<_>>()`; routed through a wrapper (R13)
                            self.open(es, "verif_collect(", "R13");
                            self.replace((re, ee), ")", "R13");
                        }
                    }
                    _ => {}
                }
                if handled_collect {
                    self.depth -= 1;
                    return;
                }
                self.walk_expr(&m.receiver);
                let hof = ["map_err", "map", "and_then", "map_or", "map_or_else", "unwrap_or_else", "ok_or_else", "filter_map", "flat_map", "any", "all"].contains(&mname.as_str());
                for a in m.args.iter() {
                    self.walk_arg_hof(a, hof);
                }
            }
            Call(c) => {
                // R3: SmallVec constructors
                if let Path(p) = &*c.func {
                    let segs: Vec<String> = p.path.segments.iter().map(|s| s.ident.to_string()).collect();
                    if segs.first().map(|s| s == "SmallVec").unwrap_or(false) {
                        let r = self.src.range(c.func.span());
                        match segs.last().unwrap().as_str() {
                            "from_elem" => self.replace(r, "vec_from_elem", "R3"),
                            "new" => self.replace(r, "Vec::new", "R3"),
                            x => die(&format!("unsupported SmallVec constructor {}", x)),
                        }
                    }
                } else {
                    self.walk_expr(&c.func);
                }
                for a in c.args.iter() {
                    self.walk_arg(a);
                }
            }
            Let(l) => {
                self.walk_expr(&l.expr);
                self.bind_pat(&l.pat, (K::Other, K::Other));
            }
            Struct(s) => {
                for f in s.fields.iter() {
                    self.walk_expr(&f.expr);
                }
                if let Some(r) = &s.rest {
                    self.walk_expr(r);
                }
            }
            Match(m) => {
                self.walk_expr(&m.expr);
                self.matches += 1;
                let mname = format!("M{}", self.matches);
                for (j, arm) in m.arms.iter().enumerate() {
                    self.env.push(HashMap::new());
                    self.bind_pat(&arm.pat, (K::Other, K::Other));
                    if let Some((_, g)) = &arm.guard {
                        self.walk_expr(g);
                    }
                    match &*arm.body {
                        Block(b) => self.walk_block(&b.block, &format!("{}a{}", mname, j)),
                        other => self.walk_expr(other),
                    }
                    self.env.pop();
                }
            }
            Paren(p) => self.walk_expr(&p.expr),
            Group(g) => self.walk_expr(&g.expr),
            Reference(r) => self.walk_expr(&r.expr),
            Field(f) => self.walk_expr(&f.base),
            Index(ix) => {
                self.walk_expr(&ix.expr);
                self.walk_expr(&ix.index)
            }
            Assign(a) => {
                self.walk_expr(&a.left);
                self.walk_expr(&a.right)
            }
            Return(r) => {
                if let Some(x) = &r.expr {
                    self.walk_expr(x)
                }
            }
            Try(t) => self.walk_expr(&t.expr),
            Tuple(t) => {
                for x in t.elems.iter() {
                    self.walk_expr(x)
                }
            }
            Array(a) => {
                for x in a.elems.iter() {
                    self.walk_expr(x)
                }
            }
            Range(r) => {
                if let Some(x) = &r.start {
                    self.walk_expr(x)
                }
                if let Some(x) = &r.end {
                    self.walk_expr(x)
                }
            }
            Repeat(r) => {
                self.walk_expr(&r.expr);
                self.walk_expr(&r.len)
            }
            Path(p) => {
                // R7: the external constant `f64::consts::PI` is read through an opaque function
                let segs: Vec<String> = p.path.segments.iter().map(|s| s.ident.to_string()).collect();
                if segs.len() >= 2 && segs[segs.len() - 2] == "consts" && segs[segs.len() - 1] == "PI" {
                    let r = self.src.range(e.span());
                    self.replace(r, "f64_const_pi()", "R7");
                } else if segs.len() >= 2 && segs[segs.len() - 2] == "consts" && ["TAU", "E", "FRAC_PI_2", "FRAC_PI_3", "FRAC_PI_4", "FRAC_PI_6", "FRAC_PI_8", "FRAC_1_PI", "FRAC_2_PI", "FRAC_2_SQRT_PI", "SQRT_2", "FRAC_1_SQRT_2", "LN_2", "LN_10", "LOG2_E", "LOG10_E", "LOG2_10", "LOG10_2"].contains(&segs[segs.len() - 1].as_str()) {
                    // R7: the other constants of core::f64::consts: distinct uninterpreted values
                    let r = self.src.range(e.span());
                    self.replace(r, &format!("f64_const_named(\"{}\")", segs[segs.len() - 1]), "R7");
                } else if segs.len() >= 2 && segs[segs.len() - 2] == "f64" && ["EPSILON", "MAX", "MIN", "MIN_POSITIVE", "INFINITY", "NEG_INFINITY", "NAN"].contains(&segs[segs.len() - 1].as_str()) {
                    let r = self.src.range(e.span());
                    self.replace(r, &format!("f64_const_{}()", segs[segs.len() - 1].to_lowercase()), "R7");
                }
            }
            Lit(_) | Break(_) | Continue(_) => {}
            other => die(&format!(
                "unsupported expression form at {}:{}: {}",
                self.src.path,
                other.span().start().line,
                other.to_token_stream().to_string().chars().take(60).collect::<String>()
            )),
        }
        self.depth -= 1;
    }

    fn walk_block_anon(&mut self, b: &syn::Block) {
        self.env.push(HashMap::new());
        for st in b.stmts.iter() {
            self.walk_stmt(st);
        }
        self.env.pop();
    }

    fn walk_arg(&mut self, a: &syn::Expr) {
        self.walk_arg_hof(a, false)
    }
    fn walk_arg_hof(&mut self, a: &syn::Expr, hof: bool) {
        // cfg(feature = "log") arguments are dropped together with their comma (R5)
        if let Some(true) = has_cfg_log(expr_attrs(a)) {
            let (s, mut e) = self.src.range(a.span());
            let attr_s = expr_attrs(a).first().map(|x| self.src.off(x.span().start())).unwrap_or(s);
            let bytes = self.src.text.as_bytes();
            while e < bytes.len() && (bytes[e] as char).is_whitespace() {
                e += 1;
            }
            if e < bytes.len() && bytes[e] == b',' {
                e += 1;
            }
            self.replace((attr_s.min(s), e), "", "R5");
            return;
        }
        // R4b: a tuple-variant constructor used as a function value
        if let syn::Expr::Path(p) = a {
            if hof && p.path.segments.len() >= 2 {
                let last = p.path.segments.last().unwrap().ident.to_string();
                let prev = p.path.segments[p.path.segments.len() - 2].ident.to_string();
                if last.chars().next().map(|c| c.is_lowercase()).unwrap_or(false) && prev.chars().next().map(|c| c.is_uppercase()).unwrap_or(false) {
                    // R4b: an associated function used as a function value: eta-expanded, carrying the function's own contract
                    if let Some(rt) = self.ov.opts.get("eta_ret") {
                        let r = self.src.range(a.span());
                        let txt = self.src.text[r.0..r.1].to_string();
                        self.replace(r, &format!("|e_arg| -> (o_arg: {}) requires call_requires({}, (e_arg,)) ensures call_ensures({}, (e_arg,), o_arg) {{ {}(e_arg) }}", rt, txt, txt, txt), "R4");
                        return;
                    }
                }
                if last.chars().next().map(|c| c.is_uppercase()).unwrap_or(false)
                    && prev.chars().next().map(|c| c.is_uppercase()).unwrap_or(false)
                {
                    let r = self.src.range(a.span());
                    let txt = self.src.text[r.0..r.1].to_string();
                    // the enum type is the path without its last segment; the eta-expanded constructor carries its own definition as contract
                    let ety: Vec<String> = p.path.segments.iter().take(p.path.segments.len() - 1).map(|s| s.ident.to_string()).collect();
                    let ety = ety.join("::");
                    self.replace(r, &format!("|e_ctor| -> (o_ctor: {}) ensures o_ctor == {}(e_ctor) {{ {}(e_ctor) }}", ety, txt, txt), "R4");
                    return;
                }
            }
        }
        self.walk_expr(a);
    }

    fn walk_binary(&mut self, b: &syn::ExprBinary) {
        use syn::BinOp::*;
        let kl = self.kind(&b.left);
        let kr = self.kind(&b.right);
        let k = if kl == K::F64 || kr == K::F64 {
            K::F64
        } else if kl == K::Int || kr == K::Int {
            K::Int
        } else {
            K::Other
        };
        let (s, _) = self.src.range(b.left.span());
        let (_, en) = self.src.range(b.right.span());
        let ops = self.src.range(b.op.span());
        let arith = match &b.op {
            Add(_) => Some(("Add::add", "f64_add")),
            Sub(_) => Some(("Sub::sub", "f64_sub")),
            Mul(_) => Some(("Mul::mul", "f64_mul")),
            Div(_) => Some(("Div::div", "f64_div")),
            _ => None,
        };
        let cmp = match &b.op {
            Lt(_) => Some("f64_lt"),
            Le(_) => Some("f64_le"),
            Gt(_) => Some("f64_gt"),
            Ge(_) => Some("f64_ge"),
            Eq(_) => Some("f64_eq"),
            Ne(_) => Some("f64_ne"),
            _ => None,
        };
        if let Some((ufcs, f64f)) = arith {
            match k {
                K::F64 => {
                    self.open(s, &format!("{}(", f64f), "R7");
                    self.replace(ops, ",", "R7");
                    self.close(en, ")", "R7");
                }
                K::Other if self.r2 => {
                    self.open(s, &format!("::core::ops::{}(", ufcs), "R2");
                    self.replace(ops, ",", "R2");
                    self.close(en, ")", "R2");
                }
                _ => {}
            }
        } else if let Some(f64f) = cmp {
            match k {
                K::F64 => {
                    self.open(s, &format!("{}(", f64f), "R7");
                    self.replace(ops, ",", "R7");
                    self.close(en, ")", "R7");
                }
                K::Other if self.r2 => {
                    // `&a >= b` with b: &T   ==>   `a >= *b`   (std blanket impl PartialOrd<&B> for &A unfolded one level)
                    if let syn::Expr::Reference(r) = &*b.left {
                        let amp = self.src.range(r.and_token.span());
                        self.replace(amp, "", "R2");
                        let (rs, re) = self.src.range(b.right.span());
                        self.open(rs, "*(", "R2");
                        self.close(re, ")", "R2");
                    } else if let syn::Expr::Reference(r) = &*b.right {
                        // `a <= &b` with a: &T   ==>   `*a <= b`
                        let amp = self.src.range(r.and_token.span());
                        self.replace(amp, "", "R2");
                        let (ls, le) = self.src.range(b.left.span());
                        self.open(ls, "*(", "R2");
                        self.close(le, ")", "R2");
                    }
                }
                _ => {}
            }
        }
        self.walk_expr(&b.left);
        self.walk_expr(&b.right);
    }

    fn walk_closure(&mut self, c: &syn::ExprClosure) {
        self.closures += 1;
        let name = format!("C{}", self.closures);
        let lk = self.local_key(0, "C");
        let mut cov = None;
        if let Some(k) = &lk {
            if let Some(c) = self.ov.closures.get(k) {
                cov = Some(c.clone());
                self.used.insert(format!("closure:{}", k));
                self.block_alias.insert(name.clone(), k.clone());
            }
        }
        if cov.is_none() {
            cov = self.ov.closures.get(&name).cloned();
            if cov.is_some() {
                self.used.insert(format!("closure:{}", name));
            }
        }
        self.env.push(HashMap::new());
        // parameters
        let mut lets = String::new();
        for (k, p) in c.inputs.iter().enumerate() {
            let ty = cov.as_ref().and_then(|c| c.types.get(k)).cloned();
            let (ps, pe) = self.src.range(p.span());
            // strip an existing `: Type` from a typed pattern for analysis
            let (inner, had_ty) = match p {
                syn::Pat::Type(pt) => (&*pt.pat, Some(self.src.slice(pt.ty.span()).to_string())),
                other => (other, None),
            };
            let ty = ty.or(had_ty);
            match inner {
                syn::Pat::Ident(pi) if pi.by_ref.is_none() && pi.subpat.is_none() => {
                    let id = pi.ident.to_string();
                    if let Some(t) = &ty {
                        self.replace((ps, pe), &format!("{}: {}", id, t), "overlay");
                        let k2 = kind_of_type_str(t);
                        self.bind(&id, k2);
                    } else {
                        self.bind(&id, (K::Other, K::Other));
                    }
                }
                syn::Pat::Wild(_) => {
                    let t = ty.clone().map(|t| format!(": {}", t)).unwrap_or_default();
                    self.replace((ps, pe), &format!("_p{}{}", k, t), "R4");
                }
                syn::Pat::Reference(r) => {
                    // `&i` -> `let i = *p;`, `&&i` -> `let i = **p;` (Verus has no reference patterns)
                    let mut stars = String::from("*");
                    let mut innermost: &syn::Pat = &r.pat;
                    while let syn::Pat::Reference(r2) = innermost {
                        stars.push('*');
                        innermost = &r2.pat;
                    }
                    let inner_txt = self.src.slice(innermost.span()).to_string();
                    let t = ty.clone().map(|t| format!(": {}", t)).unwrap_or_default();
                    self.replace((ps, pe), &format!("p{}{}", k, t), "R4");
                    lets.push_str(&format!("let {} = {}p{}; ", inner_txt, stars, k));
                    let kk = ty.as_ref().map(|t| kind_of_type_str(t)).unwrap_or((K::Other, K::Other));
                    self.bind_pat(&r.pat, kk);
                }
                other => {
                    let txt = self.src.slice(other.span()).to_string();
                    let t = ty.clone().map(|t| format!(": {}", t)).unwrap_or_default();
                    self.replace((ps, pe), &format!("p{}{}", k, t), "R4");
                    lets.push_str(&format!("let {} = p{}; ", txt, k));
                    self.bind_pat(other, (K::Other, K::Other));
                }
            }
        }
        // signature overlay
        let (bs, be) = self.src.range(c.body.span());
        let body_is_block = matches!(&*c.body, syn::Expr::Block(_));
        let mut sig = String::new();
        if let Some(cv) = &cov {
            if let Some(r) = &cv.ret {
                sig.push_str(&format!(" -> ({})", r));
            }
            if !cv.spec.trim().is_empty() {
                sig.push_str(&format!("\n{}\n", cv.spec.trim_end()));
            }
        }
        let need_wrap = !body_is_block && (!sig.is_empty() || !lets.is_empty());
        if body_is_block {
            if !sig.is_empty() {
                self.open(bs, &format!("{} ", sig), "overlay");
            }
            if !lets.is_empty() {
                if let syn::Expr::Block(b) = &*c.body {
                    let o = self.src.off(b.block.brace_token.span.open().end());
                    self.open(o, &format!(" {}", lets), "R4");
                }
            }
        } else if need_wrap {
            self.open(bs, &format!("{} {{ {}", sig, lets), "R4");
            self.close(be, " }", "R4");
        }
        match &*c.body {
            syn::Expr::Block(b) => self.walk_block(&b.block, &name),
            other => self.walk_expr(other),
        }
        self.env.pop();
    }
}

/// shape signature of a statement: kind + the identifier it binds / calls (used to align ordinal anchors after an edit)
fn stmt_shape(st: &syn::Stmt) -> String {
    fn pat_ids(p: &syn::Pat, out: &mut Vec<String>) {
        match p {
            syn::Pat::Ident(i) => out.push(i.ident.to_string()),
            syn::Pat::Type(t) => pat_ids(&t.pat, out),
            syn::Pat::Tuple(t) => t.elems.iter().for_each(|e| pat_ids(e, out)),
            syn::Pat::Reference(r) => pat_ids(&r.pat, out),
            syn::Pat::TupleStruct(t) => t.elems.iter().for_each(|e| pat_ids(e, out)),
            _ => {}
        }
    }
    fn root(e: &syn::Expr) -> String {
        match e {
            syn::Expr::Path(p) => p.path.segments.last().map(|s| s.ident.to_string()).unwrap_or_default(),
            syn::Expr::Index(i) => root(&i.expr),
            syn::Expr::Field(f) => root(&f.base),
            syn::Expr::Unary(u) => root(&u.expr),
            syn::Expr::Paren(p) => root(&p.expr),
            syn::Expr::MethodCall(m) => root(&m.receiver),
            syn::Expr::Call(c) => root(&c.func),
            syn::Expr::Reference(r) => root(&r.expr),
            _ => String::new(),
        }
    }
    match st {
        syn::Stmt::Local(l) => {
            let mut v = Vec::new();
            pat_ids(&l.pat, &mut v);
            format!("let:{}", v.join(","))
        }
        syn::Stmt::Macro(m) => format!("macro:{}", m.mac.path.segments.last().map(|s| s.ident.to_string()).unwrap_or_default()),
        syn::Stmt::Item(_) => "item".to_string(),
        syn::Stmt::Expr(e, _) => match e {
            syn::Expr::ForLoop(_) => "for".to_string(),
            syn::Expr::While(_) => "while".to_string(),
            syn::Expr::Loop(_) => "loop".to_string(),
            syn::Expr::If(i) => if matches!(&*i.cond, syn::Expr::Let(_)) { "iflet".to_string() } else { "if".to_string() },
            syn::Expr::Match(_) => "match".to_string(),
            syn::Expr::Return(_) => "return".to_string(),
            syn::Expr::Break(_) => "break".to_string(),
            syn::Expr::Assign(a) => format!("assign:{}", root(&a.left)),
            syn::Expr::Binary(b) => format!("op:{}", root(&b.left)),
            syn::Expr::Macro(m) => format!("macro:{}", m.mac.path.segments.last().map(|s| s.ident.to_string()).unwrap_or_default()),
            syn::Expr::Block(_) => "block".to_string(),
            other => format!("expr:{}", root(other)),
        },
    }
}

/// longest common subsequence alignment: for each expected index the matched actual index
fn lcs_align(exp: &[String], act: &[String]) -> Vec<Option<usize>> {
    let (n, m) = (exp.len(), act.len());
    let mut t = vec![vec![0usize; m + 1]; n + 1];
    for i in (0..n).rev() {
        for j in (0..m).rev() {
            t[i][j] = if exp[i] == act[j] { t[i + 1][j + 1] + 1 } else { t[i + 1][j].max(t[i][j + 1]) };
        }
    }
    let mut out = vec![None; n];
    let (mut i, mut j) = (0, 0);
    while i < n && j < m {
        if exp[i] == act[j] {
            out[i] = Some(j);
            i += 1;
            j += 1;
        } else if t[i + 1][j] >= t[i][j + 1] {
            i += 1;
        } else {
            j += 1;
        }
    }
    out
}

/// a trailing expression that is the value of its block (loops without `;` are statements of type `()`)
fn is_value_tail(st: &syn::Stmt) -> bool {
    match st {
        syn::Stmt::Expr(e, None) => match e {
            syn::Expr::ForLoop(_) | syn::Expr::While(_) | syn::Expr::Loop(_) => false,
            syn::Expr::If(i) => i.else_branch.is_some(),
            _ => true,
        },
        _ => false,
    }
}

fn expr_attrs(e: &syn::Expr) -> &[syn::Attribute] {
    use syn::Expr::*;
    match e {
        Array(x) => &x.attrs,
        Assign(x) => &x.attrs,
        Binary(x) => &x.attrs,
        Block(x) => &x.attrs,
        Call(x) => &x.attrs,
        Cast(x) => &x.attrs,
        Closure(x) => &x.attrs,
        Field(x) => &x.attrs,
        ForLoop(x) => &x.attrs,
        If(x) => &x.attrs,
        Index(x) => &x.attrs,
        Lit(x) => &x.attrs,
        Macro(x) => &x.attrs,
        Match(x) => &x.attrs,
        MethodCall(x) => &x.attrs,
        Paren(x) => &x.attrs,
        Path(x) => &x.attrs,
        Reference(x) => &x.attrs,
        Return(x) => &x.attrs,
        Struct(x) => &x.attrs,
        Try(x) => &x.attrs,
        Tuple(x) => &x.attrs,
        Unary(x) => &x.attrs,
        While(x) => &x.attrs,
        _ => &[],
    }
}

fn split_macro_args(mac: &syn::Macro) -> Vec<String> {
    // split the macro's token stream at top-level commas (groups are single TokenTrees, so this is exact)
    let mut out = Vec::new();
    let mut cur = String::new();
    for tt in mac.tokens.clone() {
        match &tt {
            TokenTree::Punct(p) if p.as_char() == ',' => {
                out.push(cur.trim().to_string());
                cur.clear();
            }
            TokenTree::Punct(p) if p.spacing() == proc_macro2::Spacing::Joint => {
                // `<=`, `==`, `&&`, `->` ... : the characters of one operator stay together
                cur.push(p.as_char());
            }
            _ => {
                cur.push_str(&tt.to_string());
                // keep `&x` and `a.b` readable: only add a space after idents/literals when needed
                cur.push(' ');
            }
        }
    }
    if !cur.trim().is_empty() {
        out.push(cur.trim().to_string());
    }
    out
}

// ---------------------------------------------------------------------------------------------
// apply edits to a byte range of the source, producing text + per-line map
// ---------------------------------------------------------------------------------------------
fn apply(src: &Src, start: usize, end: usize, edits: &mut Vec<Edit>) -> (String, Vec<usize>) {
    edits.sort_by(|a, b| (a.start, a.rank, a.order).cmp(&(b.start, b.rank, b.order)));
    let mut out = String::new();
    let mut linemap: Vec<usize> = Vec::new(); // repo line for each produced line (0 = inserted text)
    let mut cur = start;
    let mut cur_line_src = src.line_of(start);
    let push = |out: &mut String, linemap: &mut Vec<usize>, s: &str, srcline: &mut usize, from_src: bool| {
        for ch in s.chars() {
            out.push(ch);
            if ch == '\n' {
                if from_src {
                    *srcline += 1;
                }
                linemap.push(if from_src { *srcline } else { *srcline });
            }
        }
    };
    linemap.push(cur_line_src);
    for e in edits.iter() {
        if e.start < cur {
            if e.end <= cur {
                continue; // swallowed by an enclosing replacement
            }
            die(&format!("overlapping edits at {}:{} ({})", src.path, src.line_of(e.start), e.rule));
        }
        if e.start > end {
            continue;
        }
        let chunk = &src.text[cur..e.start];
        push(&mut out, &mut linemap, chunk, &mut cur_line_src, true);
        push(&mut out, &mut linemap, &e.text, &mut cur_line_src, false);
        // skipped source text may contain newlines
        let skipped = &src.text[e.start..e.end];
        cur_line_src += skipped.matches('\n').count();
        cur = e.end;
    }
    push(&mut out, &mut linemap, &src.text[cur..end], &mut cur_line_src, true);
    (out, linemap)
}

// ---------------------------------------------------------------------------------------------
// item selection
// ---------------------------------------------------------------------------------------------
struct Selected<'a> {
    sig: &'a syn::Signature,
    vis: Option<&'a syn::Visibility>,
    attrs: &'a [syn::Attribute],
    block: &'a syn::Block,
    imp: Option<&'a syn::ItemImpl>,
    whole: Span,
}

fn select<'a>(file: &'a syn::File, src: &Src, selector: &str) -> Selected<'a> {
    // selectors:   fn NAME      |      impl HEADER :: fn NAME
    let sel = selector.trim();
    if let Some(rest) = sel.strip_prefix("fn ") {
        let name = rest.trim();
        for it in file.items.iter() {
            if let syn::Item::Fn(f) = it {
                if f.sig.ident == name {
                    return Selected { sig: &f.sig, vis: Some(&f.vis), attrs: &f.attrs, block: &f.block, imp: None, whole: f.span() };
                }
            }
        }
        die(&format!("lost anchor: fn {} not found in {}", name, src.path));
    }
    if let Some(rest) = sel.strip_prefix("impl ") {
        let mut p = rest.rsplitn(2, "::");
        let fnpart = p.next().unwrap().trim();
        let header = p.next().unwrap_or_else(|| die("impl selector needs `:: fn NAME`")).trim();
        let fname = fnpart.strip_prefix("fn ").unwrap_or_else(|| die("impl selector needs `:: fn NAME`")).trim();
        let want = norm(header);
        for it in file.items.iter() {
            if let syn::Item::Impl(im) = it {
                let ty = norm(src.slice(im.self_ty.span()));
                let hdr = match &im.trait_ {
                    Some((_, path, _)) => format!("{}for{}", norm(src.slice(path.span())), ty),
                    None => ty,
                };
                if hdr != want {
                    continue;
                }
                for ii in im.items.iter() {
                    if let syn::ImplItem::Fn(f) = ii {
                        if f.sig.ident == fname {
                            return Selected { sig: &f.sig, vis: Some(&f.vis), attrs: &f.attrs, block: &f.block, imp: Some(im), whole: f.span() };
                        }
                    }
                }
            }
        }
        die(&format!("lost anchor: `{}` not found in {}", selector, src.path));
    }
    die(&format!("bad selector `{}`", selector));
}

fn generics_text(src: &Src, g: &syn::Generics, rules: &mut Vec<(&'static str, usize)>) -> String {
    // R1: drop the scalar parameter `T` (the unit defines `type T = R;`); R5: drop cfg(log) parameters
    let mut kept = Vec::new();
    for p in g.params.iter() {
        match p {
            syn::GenericParam::Type(tp) => {
                if tp.ident == "T" {
                    rules.push(("R1", src.line_of(src.off(tp.span().start()))));
                    continue;
                }
                if let Some(true) = has_cfg_log(&tp.attrs) {
                    rules.push(("R5", src.line_of(src.off(tp.span().start()))));
                    continue;
                }
                kept.push(src.slice(p.span()).to_string());
            }
            _ => kept.push(src.slice(p.span()).to_string()),
        }
    }
    if kept.is_empty() {
        String::new()
    } else {
        format!("<{}>", kept.join(", "))
    }
}

fn extract_fn(src: &Src, file: &syn::File, selector: &str, ov: &FnOverlay, map: &mut Vec<serde_json::Value>, out_line0: usize, canary: &Option<String>, stub: bool) -> String {
    let sel = select(file, src, selector);
    let mut w = Walker {
        src,
        ov,
        edits: Vec::new(),
        depth: 0,
        loops: 0,
        closures: 0,
        ifs: 0,
        matches: 0,
        folds: 0,
        block_stmts: HashMap::new(),
        shapes_seen: vec![],
        realigned: vec![],
        block_alias: HashMap::new(),
        ctx: vec![],
        env: vec![HashMap::new()],
        used: HashSet::new(),
        cut_defs: Vec::new(),
        cut_info: Vec::new(),
        r2: ov.opts.get("r2").map(|v| v != "off").unwrap_or(true),
        fm: None,
    };
    let mut sigrules: Vec<(&'static str, usize)> = Vec::new();
    // ---- signature, rebuilt from source slices -------------------------------------------------
    let sig = sel.sig;
    let mut head = String::new();
    let is_trait_impl = sel.imp.map(|i| i.trait_.is_some()).unwrap_or(false);
    if !is_trait_impl {
        head.push_str("pub ");
    }
    let _ = sel.vis;
    let _ = sel.attrs;
    head.push_str("fn ");
    head.push_str(&sig.ident.to_string());
    head.push_str(&generics_text(src, &sig.generics, &mut sigrules));
    head.push('(');
    let mut first = true;
    let mut typed_idx = 0usize;
    let mut param_renames: Vec<String> = Vec::new();
    for a in sig.inputs.iter() {
        match a {
            syn::FnArg::Receiver(r) => {
                head.push_str(src.slice(r.span()));
                first = false;
                if sel.imp.map(|im| norm(src.slice(im.self_ty.span())) == "f64").unwrap_or(false) {
                    w.bind("self", (K::F64, K::F64));
                }
            }
            syn::FnArg::Typed(pt) => {
                if let Some(true) = has_cfg_log(&pt.attrs) {
                    sigrules.push(("R5", src.line_of(src.off(pt.span().start()))));
                    continue;
                }
                if !first {
                    head.push_str(", ");
                }
                first = false;
                // parameter type with R3 applied
                let mut tw = Walker { src, ov, edits: Vec::new(), depth: 0, loops: 0, closures: 0, ifs: 0, matches: 0, folds: 0, block_stmts: HashMap::new(), shapes_seen: vec![], realigned: vec![], block_alias: HashMap::new(), ctx: vec![], env: vec![HashMap::new()], used: HashSet::new(), cut_defs: vec![], cut_info: vec![], r2: true, fm: None };
                tw.walk_type(&pt.ty);
                let (ts, te) = src.range(pt.ty.span());
                let (tytxt, _) = apply(src, ts, te, &mut tw.edits);
                for e in tw.edits.iter() {
                    sigrules.push((e.rule, src.line_of(e.start)));
                }
                let mut pat_txt = src.slice(pt.pat.span()).to_string();
                // a renamed parameter (same position, same type) is alpha-renamed back to the name the contract uses:
                //   fn f(new_name: T) { BODY }   ->   fn f(contract_name: T) { let new_name = contract_name; BODY }
                if let (Some(want), syn::Pat::Ident(pi)) = (ov.params.get(typed_idx), &*pt.pat) {
                    let have = pi.ident.to_string();
                    if *want != have && pi.by_ref.is_none() && pi.subpat.is_none() {
                        param_renames.push(format!("let {}{} = {};", if pi.mutability.is_some() { "mut " } else { "" }, have, want));
                        pat_txt = want.clone();
                        sigrules.push(("R4", src.line_of(src.off(pt.span().start()))));
                    }
                }
                typed_idx += 1;
                head.push_str(&format!("{}: {}", pat_txt, tytxt));
                let self_is_f64 = sel.imp.map(|im| norm(src.slice(im.self_ty.span())) == "f64").unwrap_or(false);
                let kt = if self_is_f64 { tytxt.replace("Self", "f64") } else { tytxt.clone() };
                w.bind_pat(&pt.pat, kind_of_type_str(&kt));
            }
        }
    }
    head.push(')');
    if std::env::var("MTX_DUMP_PARAMS").is_ok() {
        let names: Vec<String> = sig.inputs.iter().filter_map(|a| match a {
            syn::FnArg::Typed(pt) if has_cfg_log(&pt.attrs) != Some(true) => Some(match &*pt.pat { syn::Pat::Ident(pi) => pi.ident.to_string(), _ => "_".to_string() }),
            _ => None,
        }).collect();
        eprintln!("MTX-PARAMS\t{}\t{}", selector, names.join(" "));
    }
    if let syn::ReturnType::Type(_, ty) = &sig.output {
        let mut tw = Walker { src, ov, edits: Vec::new(), depth: 0, loops: 0, closures: 0, ifs: 0, matches: 0, folds: 0, block_stmts: HashMap::new(), shapes_seen: vec![], realigned: vec![], block_alias: HashMap::new(), ctx: vec![], env: vec![HashMap::new()], used: HashSet::new(), cut_defs: vec![], cut_info: vec![], r2: true, fm: None };
        tw.walk_type(ty);
        let (ts, te) = src.range(ty.span());
        let (tytxt, _) = apply(src, ts, te, &mut tw.edits);
        for e in tw.edits.iter() {
            sigrules.push((e.rule, src.line_of(e.start)));
        }
        let rn = ov.ret.clone().unwrap_or_else(|| "ret".to_string());
        head.push_str(&format!(" -> ({}: {})", rn, tytxt));
    }
    head.push('\n');
    // C17 differential variant: the two debug flags are assumed off in every function that receives the settings
    let has_settings = sig.inputs.iter().any(|a| matches!(a, syn::FnArg::Typed(pt) if src.slice(pt.pat.span()) == "settings"));
    let flags_clause = "!settings.print_debug_info && !settings.return_metadata,";
    let mut spec_txt = ov.spec.trim_end().to_string();
    if FLAGS_OFF.load(std::sync::atomic::Ordering::Relaxed) && has_settings {
        let t = spec_txt.trim_start();
        if t.starts_with("requires") {
            let pos = spec_txt.find("requires").unwrap() + "requires".len();
            spec_txt.insert_str(pos, &format!(" {}", flags_clause));
        } else {
            spec_txt = format!("    requires {}\n{}", flags_clause, spec_txt);
        }
    }
    if !spec_txt.trim().is_empty() {
        head.push_str(&spec_txt);
        head.push('\n');
    }
    if stub {
        // contract only: signature + spec from the same overlay text that is proved in the callee's own unit
        let mut text = String::new();
        let mut sr: Vec<(&'static str, usize)> = Vec::new();
        if let Some(im) = sel.imp {
            let g = generics_text(src, &im.generics, &mut sr);
            let mut tw = Walker { src, ov, edits: Vec::new(), depth: 0, loops: 0, closures: 0, ifs: 0, matches: 0, folds: 0, block_stmts: HashMap::new(), shapes_seen: vec![], realigned: vec![], block_alias: HashMap::new(), ctx: vec![], env: vec![HashMap::new()], used: HashSet::new(), cut_defs: vec![], cut_info: vec![], r2: true, fm: None };
            tw.walk_type(&im.self_ty);
            let (ts, te) = src.range(im.self_ty.span());
            let (selfty, _) = apply(src, ts, te, &mut tw.edits);
            match &im.trait_ {
                Some((_, path, _)) => text.push_str(&format!("impl{} {} for {} {{\n", g, src.slice(path.span()), selfty)),
                None => text.push_str(&format!("impl{} {} {{\n", g, selfty)),
            }
            for ii in im.items.iter() {
                if let syn::ImplItem::Type(t) = ii {
                    text.push_str(&format!("    {}\n", src.slice(t.span())));
                }
            }
        }
        text.push_str("#[verifier::external_body] // STUB: contract proved in the callee's own unit\n");
        text.push_str(&head);
        if ov.opts.get("stub_body").map(|v| v == "real").unwrap_or(false) {
            // an `impl Trait` return type needs a body of the right type: the real (rewritten) body is compiled, not verified
            w.walk_block(sel.block, "fn");
            let (bs, be) = src.range(sel.block.span());
            let mut edits = std::mem::take(&mut w.edits);
            let (body, _) = apply(src, bs, be, &mut edits);
            text.push_str(&body);
            text.push('\n');
        } else {
            text.push_str("{ unimplemented!() }\n");
        }
        if sel.imp.is_some() {
            text.push_str("}\n");
        }
        let (ws, we) = src.range(sel.whole);
        map.push(serde_json::json!({
            "selector": selector, "name": sig.ident.to_string(), "repo_file": src.path,
            "repo_lines": [src.line_of(ws), src.line_of(we)],
            "unit_lines": [out_line0, out_line0 + text.matches('\n').count()],
            "rule_counts": {}, "kind": "stub",
        }));
        return text;
    }
    // ---- body ------------------------------------------------------------------------------------
    w.walk_block(sel.block, "fn");
    // vacuity canary: `assert(false)` at the end of the body must be refuted by the verifier
    let mut canary_here = false;
    if let Some(c) = canary {
        if *c == sel.sig.ident.to_string() || norm(c) == norm(selector) {
            canary_here = true;
            let n = sel.block.stmts.len();
            // a function whose last statement diverges (panic!) names the statement before which the canary goes
            let at: Option<usize> = ov.opts.get("canary_before").and_then(|v| v.parse().ok());
            let pos = if let Some(k) = at.filter(|k| *k < n) {
                src.off(sel.block.stmts[k].span().start())
            } else if n > 0 && is_value_tail(&sel.block.stmts[n - 1]) {
                src.off(sel.block.stmts[n - 1].span().start())
            } else {
                src.off(sel.block.brace_token.span.close().start())
            };
            w.rule(pos, pos, "proof { assert(false); } /* vacuity canary */\n".to_string(), 1, -1000, "canary");
        }
    }
    // structure expectations
    for (k, v) in ov.expect.iter() {
        let have = match k.as_str() {
            "loops" => w.loops,
            "closures" => w.closures,
            "ifs" => w.ifs,
            "folds" => w.folds,
            "stmts" => sel.block.stmts.len(),
            other if other.ends_with(".stmts") && ov.shapes.contains_key(&other[..other.len() - 6]) => *v,
            other if other.ends_with(".stmts") => {
                let b = &other[..other.len() - 6];
                *w.block_stmts.get(b).unwrap_or_else(|| die(&format!("lost anchor: block `{}` does not exist in `{}`", b, selector)))
            }
            _ => die(&format!("unknown @expect key {}", k)),
        };
        if have != *v {
            soft(&format!("lost anchor: `{}` has {}={} but the overlay expects {}", selector, k, have, v));
        }
    }
    for k in ov.at.keys() {
        if !w.used.contains(k) {
            // an overlay that carries a property-tagged assertion is never dropped: the property would silently lose its obligation
            if ov.at[k].contains("// [C") {
                die(&format!("lost anchor: overlay position `{}` (carries a property-tagged obligation) does not exist in `{}`", k, selector));
            }
            soft(&format!("lost anchor: overlay position `{}` does not exist in `{}`", k, selector));
        }
    }
    for k in ov.closures.keys() {
        if !w.used.contains(&format!("closure:{}", k)) {
            if ov.closures[k].spec.contains("// [C") {
                die(&format!("lost anchor: closure `{}` (carries a property-tagged obligation) does not exist in `{}`", k, selector));
            }
            soft(&format!("lost anchor: closure `{}` does not exist in `{}`", k, selector));
        }
    }
    for c in ov.cuts.iter() {
        if !w.used.contains(&format!("cut:{}", c.anchor)) {
            die(&format!("lost anchor: cut position `{}` does not exist in `{}`", c.anchor, selector));
        }
    }
    for k in ov.folds.keys() {
        if !w.used.contains(&format!("fold:{}", k)) {
            soft(&format!("lost anchor: fold `{}` does not exist in `{}`", k, selector));
        }
    }
    for d in ov.drop_stmts.iter() {
        if !w.used.contains(&format!("drop:{}", d)) {
            soft(&format!("lost anchor: drop position `{}` does not exist in `{}`", d, selector));
        }
    }
    let (bs, be) = src.range(sel.block.span());
    let mut edits = std::mem::take(&mut w.edits);
    let (mut body, linemap) = apply(src, bs, be, &mut edits);
    if !param_renames.is_empty() {
        // on the line of the opening brace, so that the line map is unchanged
        body = body.replacen('{', &format!("{{ {} ", param_renames.join(" ")), 1);
    }
    // ---- wrap into impl if needed ------------------------------------------------------------------
    let mut text = String::new();
    let mut pre_lines = 0usize;
    if let Some(im) = sel.imp {
        let g = generics_text(src, &im.generics, &mut sigrules);
        let mut tw = Walker { src, ov, edits: Vec::new(), depth: 0, loops: 0, closures: 0, ifs: 0, matches: 0, folds: 0, block_stmts: HashMap::new(), shapes_seen: vec![], realigned: vec![], block_alias: HashMap::new(), ctx: vec![], env: vec![HashMap::new()], used: HashSet::new(), cut_defs: vec![], cut_info: vec![], r2: true, fm: None };
        tw.walk_type(&im.self_ty);
        let (ts, te) = src.range(im.self_ty.span());
        let (selfty, _) = apply(src, ts, te, &mut tw.edits);
        let hdr = match &im.trait_ {
            Some((_, path, _)) => format!("impl{} {} for {} {{\n", g, src.slice(path.span()), selfty),
            None => format!("impl{} {} {{\n", g, selfty),
        };
        if ov.opts.get("impl_open").map(|v| v != "no").unwrap_or(true) {
            text.push_str(&hdr);
            pre_lines += 1;
            for ii in im.items.iter() {
                if let syn::ImplItem::Type(t) = ii {
                    text.push_str(&format!("    {}\n", src.slice(t.span())));
                    pre_lines += 1;
                }
            }
        }
    }
    let head_lines = head.matches('\n').count();
    text.push_str(&head);
    text.push_str(&body);
    text.push('\n');
    // statement cuts that use `self` are emitted as methods of the same impl block
    for d in w.cut_defs.iter() {
        if sel.imp.is_some() && d.contains("self") {
            text.push_str(d);
        }
    }
    if sel.imp.is_some() && ov.opts.get("impl_close").map(|v| v != "no").unwrap_or(true) {
        text.push_str("}\n");
    }
    for d in w.cut_defs.iter() {
        if !(sel.imp.is_some() && d.contains("self")) {
            text.push_str(d);
        }
    }
    // ---- map -----------------------------------------------------------------------------------------
    let (ws, we) = src.range(sel.whole);
    let mut rulecount: BTreeMap<String, usize> = BTreeMap::new();
    let mut editlist = Vec::new();
    for (r, l) in sigrules.iter() {
        *rulecount.entry(r.to_string()).or_insert(0) += 1;
        editlist.push(serde_json::json!({"rule": r, "repo_line": l}));
    }
    for e in edits.iter() {
        *rulecount.entry(e.rule.to_string()).or_insert(0) += 1;
        if e.rule != "overlay" {
            editlist.push(serde_json::json!({"rule": e.rule, "repo_line": src.line_of(e.start)}));
        }
    }
    let body_first = out_line0 + pre_lines + head_lines;
    map.push(serde_json::json!({
        "selector": selector,
        "name": sig.ident.to_string(),
        "repo_file": src.path,
        "repo_lines": [src.line_of(ws), src.line_of(we)],
        "unit_lines": [out_line0, out_line0 + text.matches('\n').count()],
        "body_first_unit_line": body_first,
        "body_linemap": linemap,
        "rule_counts": rulecount,
        "edits": editlist,
        "loops": w.loops, "closures": w.closures, "ifs": w.ifs,
        "cuts": w.cut_info,
        "canary": canary_here,
        "realigned_blocks": w.realigned,
        "shapes": w.shapes_seen.iter().map(|(b, v)| format!("@shape {} {}", b, v.join("|"))).collect::<Vec<_>>(),
    }));
    text
}

fn extract_struct(src: &Src, file: &syn::File, name: &str, opts: &HashMap<String, String>, map: &mut Vec<serde_json::Value>) -> String {
    let ov = FnOverlay::default();
    for it in file.items.iter() {
        match it {
            syn::Item::Struct(s) if s.ident == name => {
                // generics: keep parameter names, drop bounds (the scalar trait is replaced by the abstract scalar R)
                let mut gp = Vec::new();
                for p in s.generics.params.iter() {
                    match p {
                        syn::GenericParam::Type(tp) => gp.push(tp.ident.to_string()),
                        syn::GenericParam::Const(c) => gp.push(src.slice(c.span()).to_string()),
                        syn::GenericParam::Lifetime(l) => gp.push(src.slice(l.span()).to_string()),
                    }
                }
                let g = if gp.is_empty() { String::new() } else { format!("<{}>", gp.join(", ")) };
                let mut t = String::new();
                if let Some(d) = opts.get("derive") {
                    t.push_str(&format!("#[derive({})]\n", d.replace('+', ", ")));
                }
                t.push_str(&format!("pub struct {}{} {{\n", s.ident, g));
                let mut n_r3 = 0;
                for f in s.fields.iter() {
                    let mut tw = Walker { src, ov: &ov, edits: Vec::new(), depth: 0, loops: 0, closures: 0, ifs: 0, matches: 0, folds: 0, block_stmts: HashMap::new(), shapes_seen: vec![], realigned: vec![], block_alias: HashMap::new(), ctx: vec![], env: vec![HashMap::new()], used: HashSet::new(), cut_defs: vec![], cut_info: vec![], r2: true, fm: None };
                    tw.walk_type(&f.ty);
                    n_r3 += tw.edits.len();
                    let (ts, te) = src.range(f.ty.span());
                    let (tytxt, _) = apply(src, ts, te, &mut tw.edits);
                    t.push_str(&format!("    pub {}: {},\n", f.ident.as_ref().map(|i| i.to_string()).unwrap_or_default(), tytxt));
                }
                t.push_str("}\n");
                let (ws, we) = src.range(s.span());
                map.push(serde_json::json!({"selector": format!("struct {}", name), "name": name, "repo_file": src.path,
                    "repo_lines": [src.line_of(ws), src.line_of(we)], "rule_counts": {"R3": n_r3, "R12": 1}, "kind": "struct"}));
                return t;
            }
            syn::Item::Enum(e) if e.ident == name => {
                let mut t = String::new();
                if let Some(d) = opts.get("derive") {
                    t.push_str(&format!("#[derive({})]\n", d.replace('+', ", ")));
                }
                t.push_str(&format!("pub enum {} {{\n", e.ident));
                for v in e.variants.iter() {
                    let mut vt = v.ident.to_string();
                    match &v.fields {
                        syn::Fields::Unnamed(u) => {
                            let tys: Vec<String> = u.unnamed.iter().map(|f| src.slice(f.ty.span()).to_string()).collect();
                            vt.push_str(&format!("({})", tys.join(", ")));
                        }
                        syn::Fields::Named(nf) => {
                            let fs_: Vec<String> = nf.named.iter().map(|f| format!("{}: {}", f.ident.as_ref().unwrap(), src.slice(f.ty.span()))).collect();
                            vt.push_str(&format!(" {{ {} }}", fs_.join(", ")));
                        }
                        syn::Fields::Unit => {}
                    }
                    t.push_str(&format!("    {},\n", vt));
                }
                t.push_str("}\n");
                let (ws, we) = src.range(e.span());
                map.push(serde_json::json!({"selector": format!("enum {}", name), "name": name, "repo_file": src.path,
                    "repo_lines": [src.line_of(ws), src.line_of(we)], "rule_counts": {"R12": 1}, "kind": "enum"}));
                return t;
            }
            _ => {}
        }
    }
    die(&format!("lost anchor: struct/enum {} not found in {}", name, src.path));
}

fn main() {
    let args: Vec<String> = std::env::args().collect();
    let mut vspec = None;
    let mut repo = String::from("/repo");
    let mut out = None;
    let mut mapf = None;
    let mut contracts = String::from("/verif/contracts");
    let mut canary: Option<String> = None;
    let mut i = 1;
    while i < args.len() {
        match args[i].as_str() {
            "--repo" => {
                repo = args[i + 1].clone();
                i += 2
            }
            "--out" => {
                out = Some(args[i + 1].clone());
                i += 2
            }
            "--map" => {
                mapf = Some(args[i + 1].clone());
                i += 2
            }
            "--canary" => {
                canary = Some(args[i + 1].clone());
                i += 2
            }
            "--flags-off" => {
                FLAGS_OFF.store(true, std::sync::atomic::Ordering::Relaxed);
                i += 1
            }
            "--lenient" => {
                LENIENT.store(true, std::sync::atomic::Ordering::Relaxed);
                i += 1
            }
            "--contracts" => {
                contracts = args[i + 1].clone();
                i += 2
            }
            x => {
                vspec = Some(x.to_string());
                i += 1
            }
        }
    }
    let vspec = vspec.unwrap_or_else(|| die("usage: mtx UNIT.vspec --repo DIR --out FILE --map FILE"));
    let out = out.unwrap_or_else(|| die("--out missing"));
    let (unit, dirs) = parse_vspec(&vspec);
    let mut files: HashMap<String, (Src, syn::File)> = HashMap::new();
    let mut text = String::from("// GENERATED by /verif/mtx on every run from the repository sources; never edited by hand.\n#![allow(unused)]\nuse vstd::prelude::*;\nverus! {\nglobal size_of usize == 8;\npub mod pre {\nuse vstd::prelude::*;\n");
    let mut map: Vec<serde_json::Value> = Vec::new();
    let mut includes: Vec<String> = Vec::new();
    let mut in_pre = true;
    let mut emitted_structs: HashSet<String> = HashSet::new();
    for d in dirs.iter() {
        if in_pre && !matches!(d, Directive::Include(_)) {
            in_pre = false;
            text.push_str("} // mod pre\npub mod unit {\nuse vstd::prelude::*;\nuse super::pre::*;\n");
        }
        let file_of = |files: &mut HashMap<String, (Src, syn::File)>, f: &str| {
            if !files.contains_key(f) {
                let p = format!("{}/{}", repo, f);
                let s = Src::load(&p);
                let parsed = syn::parse_file(&s.text).unwrap_or_else(|e| die(&format!("cannot parse {}: {}", p, e)));
                files.insert(f.to_string(), (s, parsed));
            }
        };
        match d {
            Directive::Verbatim(t) => text.push_str(t),
            Directive::Include(p) => {
                let full = format!("{}/{}", contracts, p);
                let t = fs::read_to_string(&full).unwrap_or_else(|e| die(&format!("cannot read include {}: {}", full, e)));
                text.push_str(&format!("// ---- include {} ----\n", p));
                text.push_str(&t);
                if !t.ends_with('\n') {
                    text.push('\n');
                }
                includes.push(p.clone());
            }
            Directive::Struct { file, name, opts } => {
                if !emitted_structs.insert(format!("{}::{}", file, name)) {
                    continue; // fragments share type definitions: each is emitted once per unit
                }
                file_of(&mut files, file);
                let (s, f) = files.get(file).unwrap();
                text.push_str(&format!("// ---- extracted from {} : {} ----\n", file, name));
                let t = extract_struct(s, f, name, opts, &mut map);
                text.push_str(&t);
            }
            Directive::Extract { file, selector, ov, line: _, stub } => {
                file_of(&mut files, file);
                let (s, f) = files.get(file).unwrap();
                text.push_str(&format!("// ---- extracted from {} : {} ----\n", file, selector));
                let line0 = text.matches('\n').count() + 1;
                let t = extract_fn(s, f, selector, ov, &mut map, line0, &canary, *stub);
                text.push_str(&t);
            }
        }
    }
    if in_pre {
        text.push_str("} // mod pre\npub mod unit {\n");
    }
    text.push_str("} // mod unit\n} // verus!\nfn main() {}\n");
    if let Some(c) = &canary {
        if !map.iter().any(|m| m.get("canary").and_then(|v| v.as_bool()).unwrap_or(false)) {
            die(&format!("lost anchor: canary function `{}` not found in unit", c));
        }
    }
    fs::write(&out, &text).unwrap_or_else(|e| die(&format!("cannot write {}: {}", out, e)));
    if let Some(m) = mapf {
        let j = serde_json::json!({"unit": unit, "vspec": vspec, "includes": includes, "items": map});
        fs::write(&m, serde_json::to_string_pretty(&j).unwrap()).unwrap_or_else(|e| die(&format!("cannot write {}: {}", m, e)));
    }
}
