// Kani stand-ins for src/sampling.rs (child module: sees private functions).  BOUNDED: sizes are fixed per harness.
use super::*;
include!("/verif/kani/z8.rs");

/// C13 / C14 (assumption A-QVEC of the Verus unit): sample_q_vectors at D x L — component i of vector l is element l*D+i of
/// the stream cos(x0,x1), sin(x0,x1), cos(x2,x3), ...; exactly D*L + (D*L mod 2) coordinates are read, starting where the
/// generator stands; the last sine is discarded when D*L is odd.
fn qvec_check<const D: usize, const L: usize, const N: usize>() {
    // N = 1 + D*L + (D*L)%2 + 1 : one coordinate read before, one left after
    let cache: [Zt; N] = core::array::from_fn(|_| anyz());
    let mut rng = MimicRng::new(&cache[..]);
    let first = rng.get_random_number(None);
    assert!(core::ptr::eq(first, &cache[0]));
    let q = sample_q_vectors::<Zt, D>(&mut rng, D, L);
    assert!(q.len() == L);
    let nq = D * L + (D * L) % 2;
    let mut l = 0;
    while l < L {
        let mut i = 0;
        while i < D {
            let n = l * D + i;
            let p = n / 2;
            let (c, s) = box_muller(&cache[1 + 2 * p], &cache[1 + 2 * p + 1]);
            let want = if n % 2 == 0 { c } else { s };
            assert!(q[l][i] == want);
            i += 1;
        }
        l += 1;
    }
    // the generator stands exactly after the Gaussian block
    let next = rng.get_random_number(None);
    assert!(core::ptr::eq(next, &cache[1 + nq]));
    kani::cover!(true, "qvec_check reached its end");
}
#[kani::proof] #[kani::unwind(8)] fn qvec_d1_l1() { qvec_check::<1, 1, 4>() }
#[kani::proof] #[kani::unwind(8)] fn qvec_d2_l1() { qvec_check::<2, 1, 4>() }
#[kani::proof] #[kani::unwind(8)] fn qvec_d3_l1() { qvec_check::<3, 1, 6>() }
#[kani::proof] #[kani::unwind(8)] fn qvec_d1_l2() { qvec_check::<1, 2, 4>() }
#[kani::proof] #[kani::unwind(8)] fn qvec_d2_l2() { qvec_check::<2, 2, 6>() }
#[kani::proof] #[kani::unwind(12)] fn qvec_d3_l2() { qvec_check::<3, 2, 8>() }
#[kani::proof] #[kani::unwind(12)] fn qvec_d1_l3() { qvec_check::<1, 3, 6>() }
#[kani::proof] #[kani::unwind(16)] fn qvec_d4_l2() { qvec_check::<4, 2, 10>() }
#[kani::proof] #[kani::unwind(18)] fn qvec_d3_l3() { qvec_check::<3, 3, 12>() }

/// C08 cross-check (bounded: E edges, L loops, 8-bit ring): L[i][j] == sum_e (s_ei * s_ej) * x_e, symmetric.
/// Complements the Verus proof when an edit moves compute_l_matrix outside the Verus subset (e.g. `continue` in a for loop).
fn lmat_check<const E: usize, const L: usize>() {
    let x: [Zt; E] = core::array::from_fn(|_| anyz());
    let rows: [[isize; L]; E] = core::array::from_fn(|_| core::array::from_fn(|_| { let v: i8 = kani::any(); kani::assume(v >= -1 && v <= 1); v as isize }));
    let sig: Vec<Vec<isize>> = rows.iter().map(|r| r.to_vec()).collect();
    let m = compute_l_matrix(&x[..], &sig);
    assert!(m.get_dim() == L);
    let mut i = 0;
    while i < L {
        let mut j = 0;
        while j < L {
            let mut want = Zt(0);
            let mut e = 0;
            while e < E {
                want = want + Zt((rows[e][i] * rows[e][j]) as i8) * x[e];
                e += 1;
            }
            assert!(m[(i, j)] == want);
            assert!(m[(i, j)] == m[(j, i)]);
            j += 1;
        }
        i += 1;
    }
    kani::cover!(true, "lmat_check reached its end");
}
#[kani::proof] #[kani::unwind(9)] fn lmat_e3_l2() { lmat_check::<3, 2>() }
#[kani::proof] #[kani::unwind(6)] fn lmat_e2_l2() { lmat_check::<2, 2>() }
#[kani::proof] #[kani::unwind(12)] fn lmat_e2_l3() { lmat_check::<2, 3>() }
#[kani::proof] #[kani::unwind(8)] fn lmat_e1_l2() { lmat_check::<1, 2>() }
#[kani::proof] #[kani::unwind(12)] fn lmat_e1_l3() { lmat_check::<1, 3>() }

/// C13 cross-check (loop-free, all 8-bit inputs): box_muller(a, b) == (cos(2 pi b) r, sin(2 pi b) r), r = sqrt(-2 ln a), with the tagged maps of Z8
#[kani::proof]
fn bm_formula() {
    let a = anyz();
    let b = anyz();
    let (c, s) = box_muller(&a, &b);
    let r = (-Zt(2) * a.ln()).sqrt();
    let th = Zt(2) * Zt(31) * b;
    assert!(c == th.cos() * r);
    assert!(s == th.sin() * r);
    kani::cover!(true, "bm_formula reached its end");
}

fn anyv<const D: usize>() -> Vector<Zt, D> { Vector::from_array(core::array::from_fn(|_| anyz())) }
fn anym2() -> SquareMatrix<Zt> {
    let mut m = SquareMatrix::new_zeros_from_num(&Zt(0), 2);
    m[(0, 0)] = anyz(); m[(0, 1)] = anyz(); m[(1, 0)] = anyz(); m[(1, 1)] = anyz();
    m
}
/// C10 cross-check (bounded: L = 2, D = 2, 8-bit ring): k_l = sum_l' q_l' * (pref * Qti[l][l']) - u_l' * Linv[l][l'],  shift_l = sum_l' u_l' * Linv[l][l'].
/// Gives a verdict (with a concrete input) when an edit restructures the iterator chain so that the Verus overlay no longer fits.
#[kani::proof]
#[kani::unwind(5)]
fn mom_l2_d2() {
    let v = anyz(); let lambda = anyz();
    let qti = anym2(); let li = anym2();
    let q = vec![anyv::<2>(), anyv::<2>()];
    let u = vec![anyv::<2>(), anyv::<2>()];
    let k = compute_loop_momenta(&v, &lambda, &qti, &q, &li, &u);
    let sh = compute_only_shift(&li, &u);
    let pref = (v / lambda / Zt(2)).sqrt();
    assert!(k.len() == 2 && sh.len() == 2);
    let mut l = 0;
    while l < 2 {
        let mut c = 0;
        while c < 2 {
            let mut e = Zt(0); let mut s = Zt(0);
            let mut lp = 0;
            while lp < 2 {
                e = e + q[lp][c] * (pref * qti[(l, lp)]) - u[lp][c] * li[(l, lp)];
                s = s + u[lp][c] * li[(l, lp)];
                lp += 1;
            }
            assert!(k[l][c] == e);
            assert!(sh[l][c] == s);
            c += 1;
        }
        l += 1;
    }
    kani::cover!(true, "mom_l2_d2 reached its end");
}
/// C09 cross-check (bounded: E = 2, L = 2, D = 2, 8-bit ring): u_l = sum_e shift_e * (s_el * x_e);
/// v = sum_e x_e (m_e^2 + p_e.p_e) - sum_l (u_l.u_l) Linv[l][l] - 2 (u_0.u_1) Linv[0][1]
#[kani::proof]
#[kani::unwind(5)]
fn uv_e2_l2_d2() {
    let x = [anyz(), anyz()];
    let rows: [[isize; 2]; 2] = core::array::from_fn(|_| core::array::from_fn(|_| { let s: i8 = kani::any(); kani::assume(s >= -1 && s <= 1); s as isize }));
    let sig: Vec<Vec<isize>> = vec![rows[0].to_vec(), rows[1].to_vec()];
    let p0 = anyv::<2>(); let p1 = anyv::<2>();
    let shifts: Vec<&Vector<Zt, 2>> = vec![&p0, &p1];
    let masses = [anyz(), anyz()];
    let li = anym2();
    let u = compute_u_vectors(&x[..], &sig, &shifts);
    assert!(u.len() == 2);
    let mut l = 0;
    while l < 2 {
        let mut c = 0;
        while c < 2 {
            let want = p0[c] * (Zt(rows[0][l] as i8) * x[0]) + p1[c] * (Zt(rows[1][l] as i8) * x[1]);
            assert!(u[l][c] == want);
            c += 1;
        }
        l += 1;
    }
    let v = compute_v_polynomial(&x[..], &u, &li, &shifts, &masses[..]);
    let dot = |a: &Vector<Zt, 2>, b: &Vector<Zt, 2>| a[0] * b[0] + a[1] * b[1];
    let want = (masses[0] * masses[0] + dot(&p0, &p0)) * x[0] + (masses[1] * masses[1] + dot(&p1, &p1)) * x[1]
        - dot(&u[0], &u[0]) * li[(0, 0)] - dot(&u[1], &u[1]) * li[(1, 1)] - Zt(2) * dot(&u[0], &u[1]) * li[(0, 1)];
    assert!(v == want);
    kani::cover!(true, "uv_e2_l2_d2 reached its end");
}

fn anym<const L: usize>() -> SquareMatrix<Zt> {
    let mut m = SquareMatrix::new_zeros_from_num(&Zt(0), L);
    let mut i = 0;
    while i < L { let mut j = 0; while j < L { m[(i, j)] = anyz(); j += 1; } i += 1; }
    m
}
/// C09 cross-check at general (bounded) sizes: the same definitions as uv_e2_l2_d2 with every unordered pair i<j of loops.
fn uv_check<const E: usize, const L: usize, const D: usize>() {
    let x: [Zt; E] = core::array::from_fn(|_| anyz());
    let rows: [[isize; L]; E] = core::array::from_fn(|_| core::array::from_fn(|_| { let s: i8 = kani::any(); kani::assume(s >= -1 && s <= 1); s as isize }));
    let sig: Vec<Vec<isize>> = rows.iter().map(|r| r.to_vec()).collect();
    let ps: [Vector<Zt, D>; E] = core::array::from_fn(|_| anyv::<D>());
    let shifts: Vec<&Vector<Zt, D>> = ps.iter().collect();
    let masses: [Zt; E] = core::array::from_fn(|_| anyz());
    let li = anym::<L>();
    let u = compute_u_vectors(&x[..], &sig, &shifts);
    assert!(u.len() == L);
    let mut l = 0;
    while l < L {
        let mut c = 0;
        while c < D {
            let mut want = Zt(0);
            let mut e = 0;
            while e < E { want = want + ps[e][c] * (Zt(rows[e][l] as i8) * x[e]); e += 1; }
            assert!(u[l][c] == want);
            c += 1;
        }
        l += 1;
    }
    let v = compute_v_polynomial(&x[..], &u, &li, &shifts, &masses[..]);
    let dot = |a: &Vector<Zt, D>, b: &Vector<Zt, D>| { let mut s = Zt(0); let mut c = 0; while c < D { s = s + a[c] * b[c]; c += 1; } s };
    let mut want = Zt(0);
    let mut e = 0;
    while e < E { want = want + (masses[e] * masses[e] + dot(&ps[e], &ps[e])) * x[e]; e += 1; }
    let mut i = 0;
    while i < L {
        want = want - dot(&u[i], &u[i]) * li[(i, i)];
        let mut j = i + 1;
        while j < L { want = want - Zt(2) * dot(&u[i], &u[j]) * li[(i, j)]; j += 1; }
        i += 1;
    }
    assert!(v == want);
    kani::cover!(true, "uv_check reached its end");
}
#[kani::proof] #[kani::unwind(11)] fn uv_e1_l3_d1() { uv_check::<1, 3, 1>() }
#[kani::proof] #[kani::unwind(11)] fn uv_e2_l3_d2() { uv_check::<2, 3, 2>() }
