// Kani stand-ins for src/sampling.rs (child module: sees private functions).  BOUNDED: sizes are fixed per harness.
use super::*;
include!("/verif/kani/z8.rs");

/// C13 / C14 (assumption A-QVEC of the Verus unit): sample_q_vectors at D x L — component i of vector l is element l*D+i of
/// the stream cos(x0,x1), sin(x0,x1), cos(x2,x3), ...; exactly D*L + (D*L mod 2) coordinates are read, starting where the
/// generator stands; the last sine is discarded when D*L is odd.
fn qvec_check<const D: usize, const L: usize, const N: usize>() {
    // N = 1 + D*L + (D*L)%2 + 1 : one coordinate read before, one left after
    let cache: [Zt; N] = core::array::from_fn(|_| anyz());
    let mut rng = MimicRng::new(&cache[..]);
    let first = rng.get_random_number(None);
    assert!(core::ptr::eq(first, &cache[0]));
    let q = sample_q_vectors::<Zt, D>(&mut rng, D, L);
    assert!(q.len() == L);
    let nq = D * L + (D * L) % 2;
    let mut l = 0;
    while l < L {
        let mut i = 0;
        while i < D {
            let n = l * D + i;
            let p = n / 2;
            let (c, s) = box_muller(&cache[1 + 2 * p], &cache[1 + 2 * p + 1]);
            let want = if n % 2 == 0 { c } else { s };
            assert!(q[l][i] == want);
            i += 1;
        }
        l += 1;
    }
    // the generator stands exactly after the Gaussian block
    let next = rng.get_random_number(None);
    assert!(core::ptr::eq(next, &cache[1 + nq]));
    kani::cover!(true, "qvec_check reached its end");
}
#[kani::proof] #[kani::unwind(8)] fn qvec_d1_l1() { qvec_check::<1, 1, 4>() }
#[kani::proof] #[kani::unwind(8)] fn qvec_d2_l1() { qvec_check::<2, 1, 4>() }
#[kani::proof] #[kani::unwind(8)] fn qvec_d3_l1() { qvec_check::<3, 1, 6>() }
#[kani::proof] #[kani::unwind(8)] fn qvec_d1_l2() { qvec_check::<1, 2, 4>() }
#[kani::proof] #[kani::unwind(8)] fn qvec_d2_l2() { qvec_check::<2, 2, 6>() }
#[kani::proof] #[kani::unwind(12)] fn qvec_d3_l2() { qvec_check::<3, 2, 8>() }
#[kani::proof] #[kani::unwind(12)] fn qvec_d1_l3() { qvec_check::<1, 3, 6>() }
#[kani::proof] #[kani::unwind(16)] fn qvec_d4_l2() { qvec_check::<4, 2, 10>() }
#[kani::proof] #[kani::unwind(18)] fn qvec_d3_l3() { qvec_check::<3, 3, 12>() }

/// C08 cross-check (bounded: E edges, L loops, 8-bit ring): L[i][j] == sum_e (s_ei * s_ej) * x_e, symmetric.
/// Complements the Verus proof when an edit moves compute_l_matrix outside the Verus subset (e.g. `continue` in a for loop).
fn lmat_check<const E: usize, const L: usize>() {
    let x: [Zt; E] = core::array::from_fn(|_| anyz());
    let rows: [[isize; L]; E] = core::array::from_fn(|_| core::array::from_fn(|_| { let v: i8 = kani::any(); kani::assume(v >= -1 && v <= 1); v as isize }));
    let sig: Vec<Vec<isize>> = rows.iter().map(|r| r.to_vec()).collect();
    let m = compute_l_matrix(&x[..], &sig);
    assert!(m.get_dim() == L);
    let mut i = 0;
    while i < L {
        let mut j = 0;
        while j < L {
            let mut want = Zt(0);
            let mut e = 0;
            while e < E {
                want = want + Zt((rows[e][i] * rows[e][j]) as i8) * x[e];
                e += 1;
            }
            assert!(m[(i, j)] == want);
            assert!(m[(i, j)] == m[(j, i)]);
            j += 1;
        }
        i += 1;
    }
    kani::cover!(true, "lmat_check reached its end");
}
#[kani::proof] #[kani::unwind(9)] fn lmat_e3_l2() { lmat_check::<3, 2>() }
#[kani::proof] #[kani::unwind(6)] fn lmat_e2_l2() { lmat_check::<2, 2>() }
#[kani::proof] #[kani::unwind(8)] fn lmat_e2_l3() { lmat_check::<2, 3>() }
#[kani::proof] #[kani::unwind(8)] fn lmat_e1_l2() { lmat_check::<1, 2>() }

/// C13 cross-check (loop-free, all 8-bit inputs): box_muller(a, b) == (cos(2 pi b) r, sin(2 pi b) r), r = sqrt(-2 ln a), with the tagged maps of Z8
#[kani::proof]
fn bm_formula() {
    let a = anyz();
    let b = anyz();
    let (c, s) = box_muller(&a, &b);
    let r = (-Zt(2) * a.ln()).sqrt();
    let th = Zt(2) * Zt(31) * b;
    assert!(c == th.cos() * r);
    assert!(s == th.sin() * r);
    kani::cover!(true, "bm_formula reached its end");
}
