// Kani stand-ins for src/sampling.rs (child module: sees private functions).  BOUNDED: sizes are fixed per harness.
use super::*;
include!("/verif/kani/z8.rs");

/// C13 / C14 (assumption A-QVEC of the Verus unit): sample_q_vectors at D x L — component i of vector l is element l*D+i of
/// the stream cos(x0,x1), sin(x0,x1), cos(x2,x3), ...; exactly D*L + (D*L mod 2) coordinates are read, starting where the
/// generator stands; the last sine is discarded when D*L is odd.
fn qvec_check<const D: usize, const L: usize, const N: usize>() {
    // N = 1 + D*L + (D*L)%2 + 1 : one coordinate read before, one left after
    let cache: [Zt; N] = core::array::from_fn(|_| anyz());
    let mut rng = MimicRng::new(&cache[..]);
    let first = rng.get_random_number(None);
    assert!(core::ptr::eq(first, &cache[0]));
    let q = sample_q_vectors::<Zt, D>(&mut rng, D, L);
    assert!(q.len() == L);
    let nq = D * L + (D * L) % 2;
    let mut l = 0;
    while l < L {
        let mut i = 0;
        while i < D {
            let n = l * D + i;
            let p = n / 2;
            let (c, s) = box_muller(&cache[1 + 2 * p], &cache[1 + 2 * p + 1]);
            let want = if n % 2 == 0 { c } else { s };
            assert!(q[l][i] == want);
            i += 1;
        }
        l += 1;
    }
    // the generator stands exactly after the Gaussian block
    let next = rng.get_random_number(None);
    assert!(core::ptr::eq(next, &cache[1 + nq]));
    kani::cover!(true, "qvec_check reached its end");
}
#[kani::proof] #[kani::unwind(8)] fn qvec_d1_l1() { qvec_check::<1, 1, 4>() }
#[kani::proof] #[kani::unwind(8)] fn qvec_d2_l1() { qvec_check::<2, 1, 4>() }
#[kani::proof] #[kani::unwind(8)] fn qvec_d3_l1() { qvec_check::<3, 1, 6>() }
#[kani::proof] #[kani::unwind(8)] fn qvec_d1_l2() { qvec_check::<1, 2, 4>() }
#[kani::proof] #[kani::unwind(8)] fn qvec_d2_l2() { qvec_check::<2, 2, 6>() }
#[kani::proof] #[kani::unwind(10)] fn qvec_d3_l2() { qvec_check::<3, 2, 8>() }
#[kani::proof] #[kani::unwind(10)] fn qvec_d1_l3() { qvec_check::<1, 3, 6>() }
#[kani::proof] #[kani::unwind(12)] fn qvec_d4_l2() { qvec_check::<4, 2, 10>() }
#[kani::proof] #[kani::unwind(12)] fn qvec_d3_l3() { qvec_check::<3, 3, 12>() }
