// Bounded Kani stand-ins for src/vector.rs (C20 cross-check; C19 through Zt::to_f64 panicking).
// They run the REAL Vector code on the 8-bit ring scalar Zt at a fixed D and compare every component with the
// componentwise definition, for all 8-bit inputs.  They are labelled bounded (D fixed) and never counted as proved;
// their purpose is a verdict with a concrete input when an edit restructures a function so that the Verus overlay
// no longer fits (lost anchor / unsupported construct).
use super::*;
include!("/verif/kani/z8.rs");

fn vec_check<const D: usize>() {
    let a: [Zt; D] = core::array::from_fn(|_| anyz());
    let b: [Zt; D] = core::array::from_fn(|_| anyz());
    let s = anyz();
    // constructors round-trip their elements, in order
    let va = Vector::<Zt, D>::from_array(a);
    let vb = Vector::<Zt, D>::from_slice(&b);
    let vc = Vector::<Zt, D>::from_vec(a.to_vec());
    assert!(va.get_elements() == a);
    assert!(vb.get_elements() == b);
    assert!(vc.get_elements() == a);
    assert!(va.len() == D);
    let z = va.new();
    let n = Vector::<Zt, D>::new_from_num(&s);
    assert!(va.zero() == Zt(0));
    // componentwise operators
    let sum = &va + &vb;
    let dif = &va - &vb;
    let sc1 = &va * s;
    let sc2 = &va * &s;
    let mut acc = Vector::<Zt, D>::from_array(a);
    acc += Vector::<Zt, D>::from_array(b);
    let mut dot = Zt(0);
    let mut sq = Zt(0);
    let mut i = 0;
    while i < D {
        assert!(va[i] == a[i] && vb[i] == b[i] && vc[i] == a[i]);
        assert!(z[i] == Zt(0) && n[i] == Zt(0));
        assert!(sum[i] == a[i] + b[i]);
        assert!(dif[i] == a[i] - b[i]);
        assert!(sc1[i] == a[i] * s);
        assert!(sc2[i] == a[i] * s);
        assert!(acc[i] == a[i] + b[i]);
        dot = dot + a[i] * b[i];
        sq = sq + a[i] * a[i];
        i += 1;
    }
    assert!(va.dot(&vb) == dot);
    assert!(vb.dot(&va) == dot);
    assert!(va.squared() == sq);
    // IndexMut writes exactly the addressed component
    let mut w = Vector::<Zt, D>::from_array(a);
    let k: usize = kani::any();
    kani::assume(k < D);
    w[k] = s;
    let mut j = 0;
    while j < D {
        assert!(w[j] == if j == k { s } else { a[j] });
        j += 1;
    }
    kani::cover!(true, "vec_check reached its end");
}
#[kani::proof] #[kani::unwind(3)] fn vec_d1() { vec_check::<1>() }
#[kani::proof] #[kani::unwind(5)] fn vec_d3() { vec_check::<3>() }
#[kani::proof] #[kani::unwind(6)] fn vec_d4() { vec_check::<4>() }
#[kani::proof] #[kani::unwind(10)] fn vec_d8() { vec_check::<8>() }
