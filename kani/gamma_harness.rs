// Kani harness for src/gamma.rs: the wrapper inverse_gamma_lr with the f64 iteration replaced by an arbitrary f64.
// LOOP-FREE and over the FULL f64 domain of (a, p, eps, result): a complete proof of the classification clauses of C12
// with IEEE semantics of is_finite / `>` (which the Verus unit treats as uninterpreted predicates).
use super::*;
fn impl_stub(_a: f64, _p: f64, _n: usize, _e: f64) -> f64 { kani::any() }

#[kani::proof]
#[kani::stub(inverse_gamma_lr_impl, impl_stub)]
fn gamma_wrapper_contract() {
    let a: f64 = kani::any(); let p: f64 = kani::any(); let e: f64 = kani::any();
    let r = inverse_gamma_lr(&a, &p, 50, &e);
    match r {
        // C12: a value is finite and strictly positive (so never NaN, never -0.0, never infinite)
        Ok(v) => { assert!(v.is_finite()); assert!(v > 0.0); kani::cover!(true, "Ok reachable"); }
        Err(_) => { kani::cover!(true, "Err reachable"); }
    }
}
