// Bounded Kani stand-ins for src/matrix.rs (C15 cross-check; C10/C08 through the fields they consume; C19 through Zt::to_f64).
// decompose_for_tropical is run on the 8-bit ring scalar Zt (sqrt / inv / div are tagged affine maps, + and * are the ring
// operations of Z/256, so every ring identity holds exactly) and compared, for ALL 8-bit matrices of the stated dimension, with
// the property-level definition computed independently here with plain arrays:
//   Q lower triangular by the Cholesky recurrences, D = diag(Q), N = D^-1 Q - I, Q^-1 = (sum_k (-N)^k) D^-1,
//   q_transposed = Q^T, q_transposed_inverse = (Q^-1)^T, inverse = (Q^-1)^T Q^-1, determinant = (prod q_ii)^2.
// BOUNDED (dimension fixed); never counted as proved.
use super::*;
include!("/verif/kani/z8.rs");

fn decomp_check<const N: usize>() {
    let a: [[Zt; N]; N] = core::array::from_fn(|_| core::array::from_fn(|_| anyz()));
    let mut m = SquareMatrix::new_zeros_from_num(&Zt(0), N);
    let mut i = 0;
    while i < N { let mut j = 0; while j < N { m[(i, j)] = a[i][j]; j += 1; } i += 1; }
    let settings = crate::TropicalSamplingSettings { matrix_stability_test: None, print_debug_info: false, return_metadata: false };
    let res = m.decompose_for_tropical(&settings);
    // ---- the definition, with plain arrays ----
    let z = Zt(0);
    let mut q = [[z; N]; N];
    let mut i = 0;
    while i < N {
        let mut d2 = a[i][i];
        let mut j = 0;
        while j < i { d2 = d2 - q[i][j] * q[i][j]; j += 1; }
        let d = crate::float::MomTropFloat::sqrt(&d2);
        q[i][i] = d;
        let mut j = i + 1;
        while j < N {
            let mut e = a[i][j];
            let mut k = 0;
            while k < i { e = e - q[i][k] * q[j][k]; k += 1; }
            q[j][i] = e / d;
            j += 1;
        }
        i += 1;
    }
    let mut det_q = Zt(1);
    let mut dinv = [z; N];
    let mut i = 0;
    while i < N { det_q = det_q * q[i][i]; dinv[i] = crate::float::MomTropFloat::inv(&q[i][i]); i += 1; }
    let determinant = det_q * det_q;
    if determinant == z {
        assert!(matches!(res, Err(MatrixError::ZeroDet)), "C16 ZeroDet exactly when the determinant is zero");
        return;
    }
    let r = match res { Ok(r) => r, Err(_) => { assert!(false, "C16 Ok when the determinant is non-zero and no stability test is requested"); return; } };
    // N = D^-1 Q - I (strictly lower), S = sum_{k=0}^{N-1} (-N)^k
    let mut nm = [[z; N]; N];
    let mut row = 1;
    while row < N { let mut col = 0; while col < row { nm[row][col] = dinv[row] * q[row][col]; col += 1; } row += 1; }
    let mut s = [[z; N]; N];
    let mut p = [[z; N]; N];
    let mut i = 0;
    while i < N { s[i][i] = Zt(1); p[i][i] = Zt(1); i += 1; }
    let mut k = 1;
    while k < N {
        // p <- p * (-N)
        let mut np = [[z; N]; N];
        let mut i = 0;
        while i < N { let mut j = 0; while j < N { let mut acc = z; let mut t = 0; while t < N { acc = acc - p[i][t] * nm[t][j]; t += 1; } np[i][j] = acc; j += 1; } i += 1; }
        p = np;
        let mut i = 0;
        while i < N { let mut j = 0; while j < N { s[i][j] = s[i][j] + p[i][j]; j += 1; } i += 1; }
        k += 1;
    }
    let mut iq = [[z; N]; N];
    let mut i = 0;
    while i < N { let mut j = 0; while j < N { iq[i][j] = s[i][j] * dinv[j]; j += 1; } i += 1; }
    assert!(r.determinant == determinant, "C08 C15 determinant is the squared product of the pivots");
    let mut i = 0;
    while i < N {
        let mut j = 0;
        while j < N {
            assert!(r.q_transposed[(i, j)] == q[j][i], "C15 q_transposed is the transposed Cholesky factor");
            assert!(r.q_transposed_inverse[(i, j)] == iq[j][i], "C10 C15 q_transposed_inverse is the transposed inverse of the factor");
            let mut acc = z;
            let mut t = 0;
            while t < N { acc = acc + iq[t][i] * iq[t][j]; t += 1; }
            assert!(r.inverse[(i, j)] == acc, "C09 C10 C15 inverse is Q^-T Q^-1");
            j += 1;
        }
        i += 1;
    }
    kani::cover!(true, "decomp_check reached its end");
}
#[kani::proof] #[kani::unwind(6)] fn decomp_d1() { decomp_check::<1>() }
#[kani::proof] #[kani::unwind(8)] fn decomp_d2() { decomp_check::<2>() }
// decomp_d3 is NOT registered in properties.json: with unwind(10) Kani stops at an unwinding assertion after 12 min (undecided), so it cannot stand in yet
#[kani::proof] #[kani::unwind(16)] fn decomp_d3() { decomp_check::<3>() }
