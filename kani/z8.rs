// Z8: an 8-bit wrapping ring scalar implementing MomTropFloat, used ONLY by the bounded Kani stand-ins.
// Transcendental operations are distinct affine maps ("tags") so that a mis-paired, mis-ordered or dropped
// operand changes the result for some input; CBMC then checks equality for ALL 8-bit inputs at the stated sizes.
// to_f64 panics: a narrowing reached inside generic code is a failed check (C19).
use std::ops::*;
#[derive(Clone, Copy, Debug, PartialEq, PartialOrd)]
pub struct Zt(pub i8);
macro_rules! bin { ($tr:ident, $m:ident, $f:ident) => {
    impl $tr<Zt> for Zt { type Output = Zt; fn $m(self, r: Zt) -> Zt { Zt(self.0.$f(r.0)) } }
    impl<'a> $tr<&'a Zt> for Zt { type Output = Zt; fn $m(self, r: &'a Zt) -> Zt { Zt(self.0.$f(r.0)) } }
    impl<'a> $tr<Zt> for &'a Zt { type Output = Zt; fn $m(self, r: Zt) -> Zt { Zt(self.0.$f(r.0)) } }
    impl<'a, 'b> $tr<&'b Zt> for &'a Zt { type Output = Zt; fn $m(self, r: &'b Zt) -> Zt { Zt(self.0.$f(r.0)) } }
}}
bin!(Add, add, wrapping_add); bin!(Sub, sub, wrapping_sub); bin!(Mul, mul, wrapping_mul);
fn pdiv(a: i8, b: i8) -> i8 { a.wrapping_mul(b.wrapping_mul(13).wrapping_add(7)) }
trait PD { fn pd(self, o: i8) -> i8; } impl PD for i8 { fn pd(self, o: i8) -> i8 { pdiv(self, o) } }
bin!(Div, div, pd);
impl Neg for Zt { type Output = Zt; fn neg(self) -> Zt { Zt(self.0.wrapping_neg()) } }
impl<'a> Neg for &'a Zt { type Output = Zt; fn neg(self) -> Zt { Zt(self.0.wrapping_neg()) } }
impl<'a> AddAssign<&'a Zt> for Zt { fn add_assign(&mut self, r: &'a Zt) { self.0 = self.0.wrapping_add(r.0) } }
impl<'a> SubAssign<&'a Zt> for Zt { fn sub_assign(&mut self, r: &'a Zt) { self.0 = self.0.wrapping_sub(r.0) } }
impl<'a> MulAssign<&'a Zt> for Zt { fn mul_assign(&mut self, r: &'a Zt) { self.0 = self.0.wrapping_mul(r.0) } }
impl crate::float::MomTropFloat for Zt {
    fn one(&self) -> Self { Zt(1) }
    fn ln(&self) -> Self { Zt(self.0.wrapping_mul(3).wrapping_add(1)) }
    fn exp(&self) -> Self { Zt(self.0.wrapping_mul(17).wrapping_add(9)) }
    fn cos(&self) -> Self { Zt(self.0.wrapping_mul(5).wrapping_add(2)) }
    fn sin(&self) -> Self { Zt(self.0.wrapping_mul(7).wrapping_add(3)) }
    fn powf(&self, p: &Self) -> Self { Zt(self.0.wrapping_mul(19).wrapping_add(p.0.wrapping_mul(23))) }
    fn sqrt(&self) -> Self { Zt(self.0.wrapping_mul(11).wrapping_add(5)) }
    fn from_isize(&self, v: isize) -> Self { Zt(v as i8) }
    fn from_f64(&self, v: f64) -> Self { Zt(v.to_bits() as i8) }
    fn inv(&self) -> Self { Zt(pdiv(1, self.0)) }
    fn to_f64(&self) -> f64 { panic!("narrowing to f64 inside generic code") }
    fn zero(&self) -> Self { Zt(0) }
    fn abs(&self) -> Self { *self }
    #[allow(non_snake_case)]
    fn PI(&self) -> Self { Zt(31) }
}
pub fn anyz() -> Zt { Zt(kani::any::<i8>()) }
