// Bounded Kani stand-in for permatuhedral_sampling + sample_edge (C06 / C07 / C11 rescaling / C14 read order cross-check).
// The REAL functions run on an arbitrary table of a graph with E edges (loop numbers, spanning flags, J and omega symbolic: the f64
// fields only enter through from_f64, which the 8-bit ring scalar maps to their low byte, so no floating-point arithmetic is
// symbolic) and on an arbitrary point with coordinates <= 1; the result is compared with the definition of the sector sampling
// (perm_post of the Verus unit) evaluated here with plain loops.  BOUNDED (E fixed); never counted as proved.
use super::*;
include!("/verif/kani/z8.rs");
use crate::preprocessing::{TropicalGraph, TropicalSubgraphTableEntry};
use crate::float::MomTropFloat as MTF;

fn sym_f64() -> f64 { f64::from_bits(0x3FF0_0000_0000_0000u64 | (kani::any::<u8>() as u64)) }

fn perm_check<const E: usize, const N: usize, const P: usize>() {
    // N = 2^E entries, P = 2E - 1 coordinates (2E - 2 are read, one more to observe the generator position)
    let entries: [TropicalSubgraphTableEntry; N] = core::array::from_fn(|_| {
        let l: u8 = kani::any();
        kani::assume(l <= 3);
        TropicalSubgraphTableEntry { loop_number: l, mass_momentum_spanning: kani::any(), j_function: sym_f64(), generalized_dod: sym_f64() }
    });
    let dimension: usize = 3;
    let dod = 1.5f64;
    // TropicalEdge has private fields and no constructor; permatuhedral_sampling only uses the NUMBER of edges
    let topology: Vec<crate::preprocessing::TropicalEdge> = (0..E).map(|_| unsafe { core::mem::zeroed() }).collect();
    let table = TropicalSubgraphTable {
        table: entries.to_vec(),
        dimension,
        tropical_graph: TropicalGraph { dod, topology, num_massive_edges: 0, external_vertices: vec![], num_loops: 1 },
        cached_factor: 1.0,
    };
    let x: [Zt; P] = core::array::from_fn(|_| { let v = anyz(); kani::assume(v <= Zt(1)); v });
    let settings = crate::TropicalSamplingSettings { matrix_stability_test: None, print_debug_info: false, return_metadata: false };
    let mut rng = MimicRng::new(&x[..]);
    let res = permatuhedral_sampling(&table, &mut rng, &settings);
    // ---- the definition ----
    let b = Zt(0);
    let t = &entries;
    let mut kappa = Zt(1);
    let mut xs = [Zt(0); E];
    let mut u_trop = Zt(1);
    let mut v_trop = Zt(1);
    let mut g: usize = N - 1;
    let mut c: usize = 0;
    while g != 0 {
        let edge: usize;
        if g.count_ones() == 1 {
            edge = g.trailing_zeros() as usize;
        } else {
            let u = x[c];
            c += 1;
            let jg = b.from_f64(t[g].j_function);
            let mut cum = Zt(0);
            let mut chosen: Option<usize> = None;
            let mut last = 0usize;
            let mut e = 0;
            while e < E {
                if (g >> e) & 1 == 1 {
                    let ge = g ^ (1 << e);
                    let p = b.from_f64(t[ge].j_function) / jg / b.from_f64(t[ge].generalized_dod);
                    cum = cum + p;
                    last = e;
                    if chosen.is_none() && cum >= u { chosen = Some(e); }
                }
                e += 1;
            }
            edge = match chosen { Some(e) => e, None => last };
        }
        let gw = g ^ (1 << edge);
        xs[edge] = kappa;
        if t[g].mass_momentum_spanning && !t[gw].mass_momentum_spanning { v_trop = xs[edge]; }
        if t[gw].loop_number < t[g].loop_number { u_trop = u_trop * xs[edge]; }
        g = gw;
        if g == 0 { break; }
        let xi = x[c];
        c += 1;
        kappa = kappa * xi.powf(&MTF::inv(&b.from_f64(t[g].generalized_dod)));
    }
    let xi_trop = u_trop * v_trop;
    let target = u_trop.powf(&b.from_f64(-(dimension as f64 / 2.0))) * (u_trop / xi_trop).powf(&b.from_f64(dod));
    let loop_number = t[N - 1].loop_number;
    let scaling = target.powf(&MTF::inv(&b.from_f64(dimension as f64 / 2.0 * loop_number as f64 + dod)));
    assert!(res.x.len() == E);
    let mut e = 0;
    while e < E {
        assert!(res.x[e] == xs[e] * scaling, "C06 C07 C11 Feynman parameter of edge e is kappa at its removal times the rescaling");
        e += 1;
    }
    assert!(res.u_trop == Zt(1) && res.v_trop == Zt(1), "C07 C11 rescaled gauge");
    assert!(c == 2 * E - 2, "C14 the sector sampling reads 2E-2 coordinates");
    // the generator stands right behind the coordinates read (C14)
    let next = *rng.get_random_number(None);
    assert!(next == x[c], "C14 the generator stands behind the 2E-2 coordinates read");
    kani::cover!(true, "perm_check reached its end");
}
#[kani::proof] #[kani::unwind(8)] fn perm_e2() { perm_check::<2, 4, 3>() }
